#!/bin/bash
# Which lines of /repo do the quick-tier workloads actually execute?  (source-based coverage, nightly toolchain)
# Not a check: a diagnostic used to find code the monitors never reach (DESIGN.md §14). Scratch space under /tmp/verif-cov,
# removed at the end unless KEEP=1.   usage: ./coverage.sh [runs-per-L1-property]
set -u
RUNS=${1:-150000}
T=/tmp/verif-cov
mkdir -p $T/prof
cd /verif/harness || exit 2
export CARGO_NET_OFFLINE=true
# (build scripts are instrumented too and would drop default_*.profraw into the crate directories of /repo)
LLVM_PROFILE_FILE="$T/build-%p-%8m.profraw" RUSTFLAGS="-Cinstrument-coverage" CARGO_TARGET_DIR=$T/target cargo +nightly build --release --offline --bins 2>&1 | tail -2
B=$T/target/release
export LLVM_PROFILE_FILE="$T/prof/%p-%8m.profraw"
export VERIF_SEED=${VERIF_SEED:-1}
for p in C01 C02 C08 C09 C10 C11 C16; do $B/routersim --property $p --tier quick --runs $RUNS --out $T/out.json > /dev/null 2>&1; done
for p in C05 C06 C07 C13 C14; do $B/wiregen --property $p --tier quick --out $T/out.json > /dev/null 2>&1; done
for p in C01 C02 C03 C04 C06 C07 C09 C10 C11 C12 C15 C16 C17; do $B/testbed --property $p --tier quick --out $T/out.json > /dev/null 2>&1; done
TOOLS=$(rustc +nightly --print sysroot)/lib/rustlib/x86_64-unknown-linux-gnu/bin
$TOOLS/llvm-profdata merge -sparse $T/prof/*.profraw -o $T/cov.profdata 2>&1 | tail -2
OBJ="-object $B/routersim -object $B/wiregen -object $B/testbed"
$TOOLS/llvm-cov report -instr-profile=$T/cov.profdata $OBJ --ignore-filename-regex='(\.cargo|/rustc/|/verif/|\.rustup)' 2>/dev/null > /verif/coverage/report.txt
# uncovered lines per file (only /repo sources)
mkdir -p /verif/coverage
$TOOLS/llvm-cov show -instr-profile=$T/cov.profdata $OBJ --ignore-filename-regex='(\.cargo|/rustc/|/verif/|\.rustup)' --show-line-counts-or-regions=false 2>/dev/null \
  | awk '/^\/repo\//{f=$0} /^ +[0-9]+\| +0\|/{print f " " $0}' > /verif/coverage/uncovered.txt
cat /verif/coverage/report.txt | cut -c1-200
[ "${KEEP:-0}" = 1 ] || find $T -delete

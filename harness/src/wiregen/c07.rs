//! C07 (L2 part) — topic-name grammar, reserved namespace, Display round trip, never a panic.
//!
//! Reference predicate written from the property text. Three zones (so that the oracle is never
//! stricter than the statement):
//!   MUST-ACCEPT : `/ns/topic`, both parts 3..=64 chars of ASCII letters, digits, `_`, `-`, ns not
//!                 starting with the reserved word  → Ok, prints back identically, is_valid()
//!   MUST-REJECT : wrong shape, a part shorter than 3 / longer than 64 *characters*, a character
//!                 that no reading of "letters, digits, _ , -" admits, reserved prefix → Err
//!   TOLERATED   : differs from the ASCII grammar only by non-ASCII Unicode *word* characters
//!                 (letters, marks, digits, connector punctuation): either answer, but try_from /
//!                 create / is_valid / Display must agree with each other
//! In every zone: never a panic.

use crate::common::{Rng, StageReport, Violation, write_replay, hex};
use selium_protocol::TopicName;
use serde_json::json;
use std::panic::{catch_unwind, AssertUnwindSafe};

const RESERVED: &str = "selium";

#[derive(Debug, PartialEq, Clone, Copy)]
pub enum Zone {
    MustAccept,
    MustReject,
    Tolerated,
}

fn ascii_word(c: char) -> bool {
    c.is_ascii_alphanumeric() || c == '_' || c == '-'
}

/// could any reading of "letters, digits, '_' and '-'" admit this character? For non-ASCII
/// characters the most liberal standard reading is Unicode's word-character class (UTS#18 `\w`:
/// Alphabetic, Mark, Decimal_Number, Connector_Punctuation, Join_Control), taken from the regex
/// crate's tables — not from the code under test.
fn liberal_word(c: char) -> bool {
    thread_local! {
        static W: regex::Regex = regex::Regex::new(r"^\w$").unwrap();
    }
    if c.is_ascii() {
        return ascii_word(c);
    }
    let mut buf = [0u8; 4];
    let s: &str = c.encode_utf8(&mut buf);
    W.with(|w| w.is_match(s))
}

pub fn classify(s: &str) -> Zone {
    // shape: '/' ns '/' topic, exactly two slashes, first at position 0
    if !s.starts_with('/') {
        return Zone::MustReject;
    }
    let rest = &s[1..];
    let parts: Vec<&str> = rest.split('/').collect();
    if parts.len() != 2 {
        return Zone::MustReject;
    }
    let (ns, tp) = (parts[0], parts[1]);
    let mut tolerated = false;
    for part in [ns, tp] {
        let n = part.chars().count();
        if !(3..=64).contains(&n) {
            return Zone::MustReject;
        }
        for c in part.chars() {
            if ascii_word(c) {
                continue;
            }
            if liberal_word(c) {
                tolerated = true;
            } else {
                return Zone::MustReject;
            }
        }
    }
    if ns.starts_with(RESERVED) {
        return Zone::MustReject;
    }
    if tolerated {
        Zone::Tolerated
    } else {
        Zone::MustAccept
    }
}

fn check_one(s: &str) -> Result<Zone, (String, String)> {
    let zone = classify(s);
    let s2 = s.to_string();
    let r = catch_unwind(AssertUnwindSafe(move || {
        let parsed = TopicName::try_from(s2.as_str());
        match parsed {
            Ok(t) => (true, Some((t.to_string(), t.is_valid(), t.namespace().to_string(), t.topic().to_string()))),
            Err(_) => (false, None),
        }
    }));
    let (ok, info) = match r {
        Ok(x) => x,
        Err(p) => {
            let msg = p.downcast_ref::<&str>().map(|s| s.to_string()).or(p.downcast_ref::<String>().cloned()).unwrap_or_default();
            return Err(("panic/try_from".into(), format!("TopicName::try_from({:?}) panicked: {}", s, msg)));
        }
    };
    match zone {
        Zone::MustAccept => {
            if !ok {
                return Err(("rejected-valid".into(), format!("valid name {:?} was rejected", s)));
            }
        }
        Zone::MustReject => {
            if ok {
                return Err(("accepted-invalid".into(), format!("invalid name {:?} was accepted as {:?}", s, info)));
            }
        }
        Zone::Tolerated => {}
    }
    if let Some((printed, valid, ns, tp)) = info {
        if printed != s {
            return Err(("display-roundtrip".into(), format!("accepted name {:?} prints back as {:?}", s, printed)));
        }
        if !valid {
            return Err(("is_valid-disagrees".into(), format!("try_from accepted {:?} but is_valid() on the result is false", s)));
        }
        // create() on the parsed components must agree
        let (ns2, tp2) = (ns.clone(), tp.clone());
        let c = catch_unwind(AssertUnwindSafe(move || TopicName::create(&ns2, &tp2).map(|t| t.to_string())));
        match c {
            Ok(Ok(p)) if p == s => {}
            Ok(other) => return Err(("create-disagrees".into(), format!("try_from accepted {:?} but create({:?},{:?}) gives {:?}", s, ns, tp, other.map_err(|e| e.to_string())))),
            Err(_) => return Err(("panic/create".into(), format!("TopicName::create({:?},{:?}) panicked", ns, tp))),
        }
    }
    Ok(zone)
}

/// the server-side rule: `is_valid()` on a name that arrived on the wire (built unchecked)
fn check_components(ns: &str, tp: &str) -> Result<(), (String, String)> {
    let full = format!("/{}/{}", ns, tp);
    // the component rule is the same grammar applied to each part; a '/' inside a part is invalid
    let zone = if ns.contains('/') || tp.contains('/') { Zone::MustReject } else { classify(&full) };
    let (a, b) = (ns.to_string(), tp.to_string());
    let r = catch_unwind(AssertUnwindSafe(move || {
        let t = TopicName::_create_unchecked(&a, &b);
        (t.is_valid(), TopicName::create(&a, &b).is_ok(), t.to_string())
    }));
    let (valid, created, printed) = match r {
        Ok(x) => x,
        Err(_) => return Err(("panic/is_valid".into(), format!("is_valid()/create panicked for ({:?},{:?})", ns, tp))),
    };
    if valid != created {
        return Err(("create-vs-is_valid".into(), format!("create() says {} but is_valid() says {} for ({:?},{:?})", created, valid, ns, tp)));
    }
    match zone {
        Zone::MustAccept if !valid => Err(("wire-rejected-valid".into(), format!("valid wire name ({:?},{:?}) fails is_valid()", ns, tp))),
        Zone::MustReject if valid => Err(("wire-accepted-invalid".into(), format!("invalid wire name ({:?},{:?}) passes is_valid() (prints {:?})", ns, tp, printed))),
        _ => Ok(()),
    }
}

const GOOD: &[char] = &['a', 'Z', '0', '9', '_', '-', 'q', 'M'];
const BAD_ASCII: &[char] = &[' ', '!', '.', '\n', '\t', '\0', '@', '#', '$', '%', '^', '&', '*', '(', ')', '+', '=', '\\', ':', ';', '"', '\'', '<', '>', ',', '?', '~', '`', '|', '{', '}', '[', ']', '\r', '\x7f'];
const UNI_ALNUM: &[char] = &['é', 'ß', 'Ж', '中', '𝒜', '٣', 'ñ', 'Ω'];
const UNI_OTHER: &[char] = &['\u{301}', '\u{200b}', '\u{202e}', '💥', '\u{a0}', '–', '\u{feff}', '™'];

fn comp(rng: &mut Rng, len: usize) -> String {
    (0..len).map(|_| *rng.pick(GOOD)).collect()
}

pub fn run(rep: &mut StageReport, tier: &str, seed: u64) {
    let mut rng = Rng::new(seed ^ 0xC07);
    let mut cases: Vec<String> = vec![];
    // boundary lengths per component
    for a in [0usize, 1, 2, 3, 4, 63, 64, 65, 66, 200] {
        for b in [0usize, 1, 2, 3, 4, 63, 64, 65, 66, 200] {
            cases.push(format!("/{}/{}", comp(&mut rng, a), comp(&mut rng, b)));
        }
    }
    // every bad / unicode character at every position of a short valid name
    let base_ns = "abc_d";
    let base_tp = "x-1yz";
    for set in [BAD_ASCII, UNI_ALNUM, UNI_OTHER] {
        for &c in set {
            for pos in 0..=base_ns.len() {
                let mut ns: Vec<char> = base_ns.chars().collect();
                ns.insert(pos, c);
                cases.push(format!("/{}/{}", ns.iter().collect::<String>(), base_tp));
                let mut ns2: Vec<char> = base_ns.chars().collect();
                if pos < ns2.len() {
                    ns2[pos] = c;
                    cases.push(format!("/{}/{}", ns2.iter().collect::<String>(), base_tp));
                }
                let mut tp: Vec<char> = base_tp.chars().collect();
                tp.insert(pos, c);
                cases.push(format!("/{}/{}", base_ns, tp.iter().collect::<String>()));
            }
            // as the very first character of the string (where the reserved-prefix test slices)
            cases.push(format!("{}abc/topic", c));
            cases.push(format!("{}", c));
            cases.push(format!("{}{}", c, c));
            cases.push(format!("{}selium/topic", c));
            cases.push(format!("/{}{}{}/{}{}{}", c, c, c, c, c, c));
            // length in characters vs bytes: 3 and 64 multi-byte characters
            cases.push(format!("/{}/{}", std::iter::repeat(c).take(64).collect::<String>(), base_tp));
            cases.push(format!("/{}/{}", std::iter::repeat(c).take(65).collect::<String>(), base_tp));
            cases.push(format!("/{}{}/{}", c, c, base_tp));
        }
    }
    // slash placements, empties, whitespace
    for s in ["", "/", "//", "///", "/abc", "/abc/", "abc/def", "/abc/def/", "/abc/def/ghi", "//abc/def", "/abc//def", " /abc/def", "/abc/def ", "/abc/def\n", "\n/abc/def", "/abc/def\0", "abc", "/a/b", "/ab/cde", "/abc/de", "\\abc\\def", "/abc\\def"] {
        cases.push(s.to_string());
    }
    // reserved prefix variants
    for s in ["/selium/topic", "/seliumx/topic", "/selium_/topic", "/selium-1/topic", "/Selium/topic", "/SELIUM/topic", "/seliu/topic", "/xselium/topic", "/sel/selium", "/abc/selium", "/selium/sel", "/seliu/mmm", "/-selium/abc", "/_selium/abc"] {
        cases.push(s.to_string());
    }
    let n_random = if tier == "thorough" { 6_000_000 } else { 500_000 };
    for _ in 0..n_random {
        let s = match rng.below(8) {
            0 => {
                // valid by construction
                let a = rng.range(3, 64) as usize;
                let b = rng.range(3, 64) as usize;
                format!("/{}/{}", comp(&mut rng, a), comp(&mut rng, b))
            }
            1 => {
                // valid shape with one mutation
                let a = rng.range(1, 8) as usize;
                let b = rng.range(1, 8) as usize;
                let mut v: Vec<char> = format!("/{}/{}", comp(&mut rng, a), comp(&mut rng, b)).chars().collect();
                let pos = rng.usize(v.len());
                let c = match rng.below(4) {
                    0 => *rng.pick(BAD_ASCII),
                    1 => *rng.pick(UNI_ALNUM),
                    2 => *rng.pick(UNI_OTHER),
                    _ => '/',
                };
                if rng.pct(50) {
                    v[pos] = c
                } else {
                    v.insert(pos, c)
                }
                v.into_iter().collect()
            }
            2 => {
                // random unicode scalars
                let n = rng.below(12) as usize;
                (0..n).map(|_| char::from_u32(rng.below(0x11_0000) as u32).unwrap_or('a')).collect()
            }
            3 => {
                // random ascii
                let n = rng.below(20) as usize;
                (0..n).map(|_| rng.below(128) as u8 as char).collect()
            }
            4 => {
                let a = rng.below(70) as usize;
                let b = rng.below(70) as usize;
                format!("/{}/{}", comp(&mut rng, a), comp(&mut rng, b))
            }
            5 => {
                // reserved-prefix neighbourhood
                let pre = &RESERVED[..rng.range(3, 6) as usize];
                let a = rng.below(5) as usize;
                format!("/{}{}/{}", pre, comp(&mut rng, a), comp(&mut rng, 4))
            }
            6 => {
                let parts = rng.below(5);
                let mut s = String::new();
                for _ in 0..parts {
                    s.push('/');
                    let n = rng.below(6) as usize;
                    s.push_str(&comp(&mut rng, n));
                }
                s
            }
            _ => {
                // multi-byte first character
                let c = if rng.pct(50) { *rng.pick(UNI_ALNUM) } else { *rng.pick(UNI_OTHER) };
                { let n = rng.below(10) as usize; format!("{}{}", c, comp(&mut rng, n)) }
            }
        };
        cases.push(s);
    }
    // every character the grammar's `\\w` admits (≈ 140 000), once in the namespace and once in the topic part
    {
        let re = regex::Regex::new(r"^\w$").unwrap();
        let mut buf = [0u8; 4];
        let mut n = 0u32;
        for cp in 0x80u32..0x11_0000 {
            let Some(c) = char::from_u32(cp) else { continue };
            if !re.is_match(c.encode_utf8(&mut buf)) {
                continue;
            }
            n += 1;
            if tier != "thorough" && n % 2 == 0 {
                cases.push(format!("/ab{}cd/topic", c));
            } else {
                cases.push(format!("/ab{}cd/x-{}-y", c, c));
            }
        }
    }
    // history: the verdict on a string must not depend on which strings were judged before it — names recombined
    // from the parts of names judged earlier (most of them accepted), and the fixed cases once more at the end
    {
        let fixed: Vec<String> = cases.iter().take(3000).cloned().collect();
        let mut recombined = vec![];
        for s in cases.iter().rev().take(4000) {
            let t = s.trim_start_matches('/');
            if let Some((a, b)) = t.split_once('/') {
                if !a.is_empty() && !b.is_empty() && !b.contains('/') {
                    recombined.push(format!("/{}/{}", b, a));
                    recombined.push(format!("/{}/{}", a, a));
                    recombined.push(format!("/{}{}/{}", RESERVED, a, b));
                    recombined.push(format!("/{}/{}", RESERVED, b));
                }
            }
        }
        for t in ["selium", "selium-metrics", "seliumx", "selium_1"] {
            cases.push(format!("/tenant-a/{}", t));
            cases.push(format!("/{}/tenant-a", t));
            cases.push(format!("/{}/{}", t, t));
        }
        cases.extend(recombined);
        cases.extend(fixed);
    }
    let mut zones = [0u64; 3];
    for (i, s) in cases.iter().enumerate() {
        rep.evaluations += 1;
        match check_one(s) {
            Ok(z) => {
                zones[z as usize] += 1;
                if !s.is_empty() {
                    rep.distinct.insert(crate::common::fnv(s.as_bytes()));
                }
                if i % 40009 == 11 {
                    rep.sample(json!({"input": s, "zone": format!("{:?}", z), "verdict": "agrees with the reference predicate"}));
                }
            }
            Err((sig, detail)) => {
                let signature = format!("C07/topic-name/{}", sig);
                let already = rep.violations.iter().filter(|v| v.signature == signature).count();
                let replay = if already < 2 {
                    write_replay("C07", &sig, i as u64, json!({"property": "C07", "input": s, "input_hex": hex(s.as_bytes()), "detail": detail}))
                } else {
                    String::new()
                };
                rep.violation(Violation { signature, detail, replay });
            }
        }
    }
    // wire-side rule on (namespace, topic) pairs
    let mut pairs: Vec<(String, String)> = vec![];
    for a in ["", "ab", "abc", "a/b", "selium", "seliumx", "abc def", "é", "ééé", "a\nbc", "x".repeat(64).as_str(), "x".repeat(65).as_str(), "abc-_9"] {
        for b in ["", "ab", "abc", "a/b", "selium", "t!pic", "\u{301}\u{301}\u{301}", "y".repeat(64).as_str(), "y".repeat(65).as_str(), "ok_topic"] {
            pairs.push((a.to_string(), b.to_string()));
        }
    }
    for _ in 0..(n_random / 10) {
        let a = rng.below(8) as usize;
        let b = rng.below(8) as usize;
        let mut ns: Vec<char> = comp(&mut rng, a).chars().collect();
        let mut tp: Vec<char> = comp(&mut rng, b).chars().collect();
        if rng.pct(40) && !ns.is_empty() {
            let p = rng.usize(ns.len());
            ns[p] = *rng.pick(BAD_ASCII);
        }
        if rng.pct(30) {
            tp.push(*rng.pick(&['/', 'é', ' ', '\u{301}']));
        }
        pairs.push((ns.into_iter().collect(), tp.into_iter().collect()));
    }
    for (i, (ns, tp)) in pairs.iter().enumerate() {
        rep.evaluations += 1;
        match check_components(ns, tp) {
            Ok(()) => {
                rep.distinct.insert(crate::common::fnv(format!("{}\u{0}{}", ns, tp).as_bytes()));
            }
            Err((sig, detail)) => {
                let signature = format!("C07/topic-name/{}", sig);
                let replay = write_replay("C07", &sig, i as u64, json!({"property": "C07", "namespace": ns, "topic": tp, "detail": detail}));
                rep.violation(Violation { signature, detail, replay });
            }
        }
    }
    rep.count("zone_must_accept", zones[0]);
    rep.count("zone_must_reject", zones[1]);
    rep.count("zone_tolerated", zones[2]);
    rep.count("wire_component_pairs", pairs.len() as u64);
    rep.rule = "strings from boundary sweeps (component lengths 0..200, every bad/Unicode character at every position, slash placements, reserved-prefix variants) plus random strings; each classified by an independent reference predicate into must-accept / must-reject / tolerated and compared with TopicName::try_from, create, is_valid and Display; distinct = distinct non-empty string".into();
}

//! C06 — no bytes from the network can crash a decoder.
//!
//! Parent/child sandbox: the child runs the decoders on generated inputs under catch_unwind with
//! the counting allocator; before each input it records the input index in a progress file, so
//! that an abort (allocation failure, stack overflow, abort()) is attributed to that input by the
//! parent, which then restarts the child after it.

use crate::common::alloc;
use crate::common::{hex_trunc, write_replay, Hasher64, Rng, StageReport, Violation};
use bytes::{Bytes, BytesMut};
use selium_protocol::utils::{decode_message_batch, encode_message_batch};
use selium_protocol::{Frame, MessageCodec};
use selium_std::codecs::{BincodeCodec, BytesCodec, StringCodec};
use selium_std::compression::brotli::BrotliDecomp;
use selium_std::compression::deflate::DeflateDecomp;
use selium_std::compression::lz4::Lz4Decomp;
use selium_std::compression::zstd::ZstdDecomp;
use selium_std::traits::codec::{MessageDecoder, MessageEncoder};
use selium_std::traits::compression::Decompress;
use serde_json::{json, Value};
use std::collections::HashMap;
use std::io::Write;
use std::panic::{catch_unwind, AssertUnwindSafe};
use tokio_util::codec::{Decoder, Encoder};

use super::c14::{all_pairs, payload_class, Sample, Shape};

pub const SUBJECTS: &[&str] = &[
    "MessageCodec::decode",
    "Frame::try_from",
    "decode_message_batch",
    "BincodeCodec<String>::decode",
    "BincodeCodec<Vec<u8>>::decode",
    "BincodeCodec<Sample>::decode",
    "BincodeCodec<HashMap<String,String>>::decode",
    "StringCodec::decode",
    "BytesCodec::decode",
    "gzip::decompress",
    "zlib::decompress",
    "zstd::decompress",
    "lz4::decompress",
    "brotli::decompress",
    "subscriber pipeline (zstd→unbatch→String)",
    "subscriber pipeline (unbatch→bincode Sample)",
];

fn is_decompressor(subject: usize) -> bool {
    (9..=14).contains(&subject)
}

/// run one decoder; returns (ok, output length in bytes as far as known)
pub fn run_subject(subject: usize, input: &[u8]) -> (bool, usize) {
    match subject {
        0 => {
            let mut src = BytesMut::from(input);
            let mut n = 0;
            let mut ok = true;
            // what FramedRead does: decode until None / Err
            loop {
                match MessageCodec.decode(&mut src) {
                    Ok(Some(f)) => n += f.get_length().unwrap_or(0) as usize + 9,
                    Ok(None) => break,
                    Err(_) => {
                        ok = false;
                        break;
                    }
                }
            }
            // … and what it does when the peer finishes the stream: `decode_eof` on whatever is left
            while ok {
                match MessageCodec.decode_eof(&mut src) {
                    Ok(Some(f)) => n += f.get_length().unwrap_or(0) as usize + 9,
                    Ok(None) => break,
                    Err(_) => {
                        ok = false;
                    }
                }
            }
            (ok, n)
        }
        1 => {
            if input.is_empty() {
                return (false, 0);
            }
            let ty = input[0];
            let body = BytesMut::from(&input[1..]);
            match Frame::try_from((ty, body)) {
                Ok(f) => (true, f.get_length().unwrap_or(0) as usize),
                Err(_) => (false, 0),
            }
        }
        2 => match decode_message_batch(Bytes::copy_from_slice(input)) {
            Ok(v) => (true, v.iter().map(|b| b.len() + 8).sum()),
            Err(_) => (false, 0),
        },
        3 => match BincodeCodec::<String>::default().decode(&mut BytesMut::from(input)) {
            Ok(s) => (true, s.len()),
            Err(_) => (false, 0),
        },
        4 => match BincodeCodec::<Vec<u8>>::default().decode(&mut BytesMut::from(input)) {
            Ok(s) => (true, s.len()),
            Err(_) => (false, 0),
        },
        5 => match BincodeCodec::<Sample>::default().decode(&mut BytesMut::from(input)) {
            Ok(s) => (true, bincode::serialized_size(&s).unwrap_or(0) as usize),
            Err(_) => (false, 0),
        },
        6 => match BincodeCodec::<HashMap<String, String>>::default().decode(&mut BytesMut::from(input)) {
            Ok(s) => (true, s.iter().map(|(k, v)| k.len() + v.len() + 48).sum()),
            Err(_) => (false, 0),
        },
        7 => match StringCodec.decode(&mut BytesMut::from(input)) {
            Ok(s) => (true, s.len()),
            Err(_) => (false, 0),
        },
        8 => match BytesCodec.decode(&mut BytesMut::from(input)) {
            Ok(s) => (true, s.len()),
            Err(_) => (false, 0),
        },
        9 => dec(&DeflateDecomp::gzip(), input),
        10 => dec(&DeflateDecomp::zlib(), input),
        11 => dec(&ZstdDecomp, input),
        12 => dec(&Lz4Decomp, input),
        13 => dec(&BrotliDecomp, input),
        14 => {
            // Subscriber::poll_next on a BatchMessage frame with decompression configured
            let bytes = match ZstdDecomp.decompress(Bytes::copy_from_slice(input)) {
                Ok(b) => b,
                Err(_) => return (false, 0),
            };
            let out_len = bytes.len();
            let batch = match decode_message_batch(bytes) {
                Ok(b) => b,
                Err(_) => return (false, out_len),
            };
            let mut ok = true;
            for m in batch {
                let mut mb = BytesMut::with_capacity(m.len());
                mb.extend_from_slice(&m);
                if StringCodec.decode(&mut mb).is_err() {
                    ok = false;
                }
            }
            (ok, out_len)
        }
        _ => {
            let batch = match decode_message_batch(Bytes::copy_from_slice(input)) {
                Ok(b) => b,
                Err(_) => return (false, 0),
            };
            let mut ok = true;
            let mut n = 0;
            for m in batch {
                n += m.len();
                let mut mb = BytesMut::with_capacity(m.len());
                mb.extend_from_slice(&m);
                if BincodeCodec::<Sample>::default().decode(&mut mb).is_err() {
                    ok = false;
                }
            }
            (ok, n)
        }
    }
}

fn dec(d: &dyn Decompress, input: &[u8]) -> (bool, usize) {
    match d.decompress(Bytes::copy_from_slice(input)) {
        Ok(b) => (true, b.len()),
        Err(_) => (false, 0),
    }
}

fn sample_value(rng: &mut Rng) -> Sample {
    Sample {
        name: "name".into(),
        n: rng.next_u64(),
        tags: vec!["a".into(), "bb".into()],
        map: [("k".to_string(), 1)].into_iter().collect(),
        opt: None,
        raw: rng.rbytes(16),
        f: 1.5,
        e: Shape::Pair(-3, "p".into()),
    }
}

/// a valid encoding for the subject (the seed of mutations)
/// the smallest well-formed unit of a subject's format (an empty compressed member, an empty batch, a tiny frame)
fn small_unit(subject: usize, rng: &mut Rng) -> Vec<u8> {
    match subject {
        9..=14 => {
            let name = match subject {
                9 => "gzip/6",
                10 => "zlib/6",
                11 | 14 => "zstd/3",
                12 => "lz4",
                _ => "brotli-generic/5",
            };
            let data: Vec<u8> = if rng.pct(70) { vec![] } else { vec![b'x'; rng.below(3) as usize + 1] };
            PAIRS.with(|p| {
                if p.borrow().is_none() {
                    *p.borrow_mut() = Some(all_pairs(true));
                }
                let g = p.borrow();
                let pr = g.as_ref().unwrap().iter().find(|x| x.2 == name).unwrap();
                pr.0.compress(Bytes::from(data)).map(|b| b.to_vec()).unwrap_or_default()
            })
        }
        2 | 15 => encode_message_batch(vec![]).to_vec(),
        0 => {
            let mut buf = BytesMut::new();
            let _ = MessageCodec.encode(Frame::Ok, &mut buf);
            buf.to_vec()
        }
        _ => {
            let mut v = valid_seed(subject, rng);
            v.truncate(24);
            v
        }
    }
}

fn valid_seed(subject: usize, rng: &mut Rng) -> Vec<u8> {
    match subject {
        0 => {
            let mut buf = BytesMut::new();
            for _ in 0..rng.range(1, 3) {
                let f = super::c05::rand_frame(rng, true);
                let _ = MessageCodec.encode(f, &mut buf);
            }
            buf.to_vec()
        }
        1 => {
            let f = super::c05::rand_frame(rng, true);
            let mut buf = BytesMut::new();
            let _ = MessageCodec.encode(f, &mut buf);
            buf[8..].to_vec()
        }
        2 | 15 => {
            let n = rng.below(5) as usize;
            let c = BincodeCodec::<Sample>::default();
            let list: Vec<Bytes> = (0..n)
                .map(|_| {
                    if subject == 15 {
                        c.encode(sample_value(rng)).unwrap()
                    } else {
                        Bytes::from(rng.rbytes(20))
                    }
                })
                .collect();
            encode_message_batch(list).to_vec()
        }
        3 => bincode::serialize(&"hello wörld".to_string()).unwrap(),
        4 => bincode::serialize(&rng.rbytes(30)).unwrap(),
        5 => bincode::serialize(&sample_value(rng)).unwrap(),
        6 => {
            let mut m = HashMap::new();
            m.insert("req_id".to_string(), "12".to_string());
            m.insert("cid".to_string(), "3".to_string());
            bincode::serialize(&m).unwrap()
        }
        7 => "héllo — ok 💥".as_bytes().to_vec(),
        8 => rng.rbytes(30),
        9..=14 => {
            let class = rng.range(2, 6) as u32;
            let sz = rng.below(2000) as usize + 2;
            let mut data = payload_class(rng, class, sz);
            if subject == 14 {
                let list: Vec<Bytes> = (0..rng.below(4)).map(|i| Bytes::from(format!("msg-{}", i))).collect();
                data = encode_message_batch(list).to_vec();
            }
            if matches!(subject, 11 | 14) && rng.pct(40) {
                // one-shot zstd frames declare their content size in the frame header (selium's own streaming
                // compressor never does): a different header layout for the mutations to hit
                let small = rng.pct(50);
                if small {
                    data.truncate(rng.below(24) as usize + 1);
                }
                return zstd::bulk::compress(&data, 3).unwrap_or_default();
            }
            let name = match subject {
                9 => "gzip/6",
                10 => "zlib/6",
                11 | 14 => "zstd/3",
                12 => "lz4",
                _ => "brotli-generic/5",
            };
            let pairs = PAIRS.with(|p| {
                if p.borrow().is_none() {
                    *p.borrow_mut() = Some(all_pairs(true));
                }
                let g = p.borrow();
                let pr = g.as_ref().unwrap().iter().find(|x| x.2 == name).unwrap();
                pr.0.compress(Bytes::from(data.clone())).map(|b| b.to_vec()).unwrap_or_default()
            });
            pairs
        }
        _ => vec![],
    }
}

thread_local! {
    static PAIRS: std::cell::RefCell<Option<Vec<super::c14::Pair>>> = const { std::cell::RefCell::new(None) };
}

const SPECIAL_U64: &[u64] = &[0, 1, 2, 7, 8, 9, 255, 256, 65535, 65536, 1 << 20, (1 << 20) + 1, 1 << 24, 1 << 31, 1 << 32, 1 << 40, 1 << 48, 1 << 62, 1 << 63, u64::MAX - 1, u64::MAX];

/// deterministic input for (seed, index): (subject, bytes, strategy)
pub fn gen_input(seed: u64, idx: u64) -> (usize, Vec<u8>, &'static str) {
    let mut rng = Rng::new(crate::common::mix(seed, idx));
    let subject = (idx % SUBJECTS.len() as u64) as usize;
    // state carried from one message to the next: every 480th input of a decompressor is a well-formed payload that
    // expands enormously (megabytes of zeros), and the one right after it (same subject, same process) is bulky
    // garbage — what the decoder asks for on the second must not depend on the first
    if is_decompressor(subject) {
        let g = idx / SUBJECTS.len() as u64;
        if g % 480 == 0 {
            let zeros = vec![0u8; (2 + rng.below(6) as usize) << 20];
            let name = match subject {
                9 => "gzip/6",
                10 => "zlib/6",
                11 | 14 => "zstd/3",
                12 => "lz4",
                _ => "brotli-generic/5",
            };
            let data = if subject == 14 { encode_message_batch(vec![Bytes::from(zeros)]).to_vec() } else { zeros };
            let v = PAIRS.with(|p| {
                if p.borrow().is_none() {
                    *p.borrow_mut() = Some(all_pairs(true));
                }
                let g = p.borrow();
                let pr = g.as_ref().unwrap().iter().find(|x| x.2 == name).unwrap();
                pr.0.compress(Bytes::from(data)).map(|b| b.to_vec()).unwrap_or_default()
            });
            return (subject, v, "highly-expanding-valid-payload");
        }
        if g % 480 == 1 {
            let n = 200_000 + rng.below(800_000) as usize;
            let mut v = rng.bytes(4096);
            v.resize(n, 0x3c);
            return (subject, v, "bulky-garbage-after-an-expanding-payload");
        }
    }
    let strategy = rng.below(14);
    match strategy {
        0 => {
            let n = match rng.below(4) {
                0 => rng.below(4) as usize,
                1 => rng.below(16) as usize,
                2 => rng.below(64) as usize,
                _ => rng.below(600) as usize,
            };
            (subject, rng.bytes(n), "random-bytes")
        }
        1 => {
            let v = valid_seed(subject, &mut rng);
            (subject, v, "valid")
        }
        2 => {
            let mut v = valid_seed(subject, &mut rng);
            let cut = rng.usize(v.len() + 1);
            v.truncate(cut);
            (subject, v, "truncated")
        }
        3 => {
            let mut v = valid_seed(subject, &mut rng);
            if !v.is_empty() {
                for _ in 0..rng.range(1, 3) {
                    let p = rng.usize(v.len());
                    v[p] ^= 1 << rng.below(8);
                }
            }
            (subject, v, "bit-flipped")
        }
        4 | 5 => {
            // overwrite an aligned-or-not 8-byte window with a special length value (LE and BE)
            let mut v = valid_seed(subject, &mut rng);
            if v.len() < 8 {
                v.resize(8, 0);
            }
            let p = if rng.pct(60) { (rng.usize(v.len() - 7) / 8) * 8 } else { rng.usize(v.len() - 7) };
            let val = if rng.pct(70) { *rng.pick(SPECIAL_U64) } else { (v.len() as u64).wrapping_add(rng.below(5)).wrapping_sub(2) };
            let b = if strategy == 4 { val.to_le_bytes() } else { val.to_be_bytes() };
            v[p..p + 8].copy_from_slice(&b);
            (subject, v, "length-field-replaced")
        }
        6 => {
            // adversarial templates: huge announced lengths in front of little data
            let val = *rng.pick(SPECIAL_U64);
            let mut v = vec![];
            match rng.below(4) {
                0 => v.extend_from_slice(&val.to_le_bytes()),
                1 => v.extend_from_slice(&val.to_be_bytes()),
                2 => {
                    v.extend_from_slice(&2u64.to_be_bytes());
                    v.extend_from_slice(&val.to_be_bytes());
                }
                _ => {
                    v.extend_from_slice(&val.to_be_bytes());
                    v.push(rng.below(9) as u8);
                    v.extend_from_slice(&val.to_le_bytes());
                }
            }
            v.extend(rng.rbytes(12));
            (subject, v, "adversarial-length")
        }
        7 => {
            // valid seed with a chunk duplicated or removed
            let mut v = valid_seed(subject, &mut rng);
            if v.len() > 4 {
                let a = rng.usize(v.len() - 2);
                let l = rng.usize((v.len() - a).min(40)) + 1;
                if rng.pct(50) {
                    let chunk = v[a..a + l].to_vec();
                    let at = rng.usize(v.len());
                    for (i, b) in chunk.into_iter().enumerate() {
                        v.insert(at + i, b);
                    }
                } else {
                    v.drain(a..a + l);
                }
            }
            (subject, v, "spliced")
        }
        8 => {
            // short headers: 0..9 bytes of a valid encoding + garbage
            let v = valid_seed(subject, &mut rng);
            let k = rng.below(10) as usize;
            let mut w = v[..k.min(v.len())].to_vec();
            w.extend(rng.rbytes(4));
            (subject, w, "short-header")
        }
        10 => {
            // systematic poisoning of a *small* valid encoding: every offset × special value × width × byte order
            // gets covered over a run (≈ 40 offsets × 21 values × 6 encodings)
            let mut v = valid_seed(subject, &mut rng);
            if v.len() > 48 {
                v.truncate(48);
            }
            if v.is_empty() {
                v.push(0);
            }
            let off = rng.usize(v.len());
            let val = *rng.pick(SPECIAL_U64);
            let enc: Vec<u8> = match rng.below(6) {
                0 => val.to_le_bytes().to_vec(),
                1 => val.to_be_bytes().to_vec(),
                2 => (val as u32).to_le_bytes().to_vec(),
                3 => (val as u32).to_be_bytes().to_vec(),
                4 => (val as u16).to_le_bytes().to_vec(),
                _ => vec![val as u8],
            };
            for (i, b) in enc.iter().enumerate() {
                if off + i < v.len() {
                    v[off + i] = *b;
                } else {
                    v.push(*b);
                }
            }
            (subject, v, "systematic-field-poisoning")
        }
        13 => {
            // a frame at the size limit of which all but the last few bytes have arrived (frame decoder only; the other
            // subjects get a plain truncation)
            if subject == 0 && rng.below(40) == 0 {
                let back = rng.below(10) as usize;
                let cut = rng.range(1, 12) as usize;
                let mut v = Vec::with_capacity(1_048_600);
                v.extend_from_slice(&((1_048_576 - back) as u64).to_be_bytes());
                v.push(5); // batch frame: payload bytes are taken as they are
                v.resize(9 + 1_048_576 - back - cut, 0x5a);
                (subject, v, "limit-sized-frame-missing-its-last-bytes")
            } else {
                let mut v = valid_seed(subject, &mut rng);
                let cut = rng.range(1, 12) as usize;
                let l = v.len().saturating_sub(cut);
                v.truncate(l);
                (subject, v, "truncated-by-a-few-bytes")
            }
        }
        12 => {
            // long runs of the smallest well-formed unit (thousands of empty gzip members, empty batches, Ok frames …):
            // a decoder that handles "one more unit" by recursion runs out of stack
            let unit = small_unit(subject, &mut rng);
            let max_k = if unit.is_empty() { 1 } else { (1_040_000 / unit.len()).max(1) };
            let k = if rng.below(64) == 0 { *rng.pick(&[max_k, max_k / 2, 20_000.min(max_k), 6_000.min(max_k)]) } else { *rng.pick(&[2usize, 3, 16, 64]) };
            let mut v = Vec::with_capacity(unit.len() * k);
            for _ in 0..k {
                v.extend_from_slice(&unit);
            }
            (subject, v, "run-of-small-units")
        }
        11 => {
            // format-aware adversarial headers for the decompressors
            let val = *rng.pick(SPECIAL_U64);
            let mut v: Vec<u8> = vec![];
            match rng.below(3) {
                0 => {
                    // zstd: magic, frame header descriptor selecting a 1/2/4/8-byte content size (with or without the
                    // single-segment flag), optional window descriptor, declared size, then a little body
                    v.extend_from_slice(&[0x28, 0xb5, 0x2f, 0xfd]);
                    let fcs = rng.below(4) as u8;
                    let single = rng.pct(50);
                    v.push((fcs << 6) | if single { 0x20 } else { 0 });
                    if !single {
                        v.push(rng.below(256) as u8);
                    }
                    let width = match fcs {
                        0 => if single { 1 } else { 0 },
                        1 => 2,
                        2 => 4,
                        _ => 8,
                    };
                    v.extend_from_slice(&val.to_le_bytes()[..width]);
                    // a raw block header (last block, raw, size n) + n bytes
                    let n = rng.below(8) as u32;
                    let bh = 1 | (n << 3);
                    v.extend_from_slice(&bh.to_le_bytes()[..3]);
                    v.extend(rng.bytes(n as usize));
                }
                1 => {
                    // gzip: header with FEXTRA / FNAME / FCOMMENT / FHCRC flags and a poisoned XLEN, then garbage
                    v.extend_from_slice(&[0x1f, 0x8b, 0x08, rng.below(32) as u8, 0, 0, 0, 0, 0, 3]);
                    v.extend_from_slice(&(val as u16).to_le_bytes());
                    v.extend(rng.rbytes(20));
                    v.extend_from_slice(&val.to_le_bytes());
                }
                _ => {
                    // lz4 frame: magic, FLG with/without content-size bit, BD, declared size, header checksum guess
                    v.extend_from_slice(&[0x04, 0x22, 0x4d, 0x18]);
                    v.push(0x40 | if rng.pct(60) { 0x08 } else { 0 } | (rng.below(8) as u8) << 0 & 0x04);
                    v.push([0x40u8, 0x50, 0x60, 0x70][rng.usize(4)]);
                    v.extend_from_slice(&val.to_le_bytes());
                    v.push(rng.below(256) as u8);
                    v.extend(rng.rbytes(12));
                }
            }
            (subject, v, "format-aware-header")
        }
        _ => {
            // the first bytes of another subject's valid encoding (type confusion)
            let other = rng.usize(SUBJECTS.len());
            let v = valid_seed(other, &mut rng);
            (subject, v, "cross-subject")
        }
    }
}

/// allocation budget for one input (design §4 C06)
pub fn budget(subject: usize, input_len: usize, output_len: usize) -> usize {
    if is_decompressor(subject) {
        (64 << 20) + 1100 * input_len + 16 * output_len
    } else {
        (8 << 20) + 16 * (input_len + output_len)
    }
}

// ---------------------------------------------------------------------------------------
// child
// ---------------------------------------------------------------------------------------
/// the decoders run on a thread with the stack a tokio worker has (2 MiB), not on the 8 MiB main thread
pub fn child_main(seed: u64, from: u64, to: u64, progress_path: &str, out_path: &str, track: bool) {
    let (p, o) = (progress_path.to_string(), out_path.to_string());
    let h = std::thread::Builder::new().name("decoders".into()).stack_size(2 << 20).spawn(move || child_body(seed, from, to, &p, &o, track)).expect("spawn");
    let _ = h.join();
}

fn child_body(seed: u64, from: u64, to: u64, progress_path: &str, out_path: &str, track: bool) {
    std::panic::set_hook(Box::new(|info| {
        let loc = info.location().map(|l| format!("{}:{}", l.file(), l.line())).unwrap_or_default();
        let msg = info.payload().downcast_ref::<&str>().map(|s| s.to_string()).or(info.payload().downcast_ref::<String>().cloned()).unwrap_or_default();
        PANIC_INFO.with(|p| *p.borrow_mut() = Some((loc, msg)));
    }));
    let mut progress = std::fs::OpenOptions::new().create(true).write(true).truncate(true).open(progress_path).expect("progress file");
    let mut findings: Vec<Value> = vec![];
    let mut by_subject: Vec<u64> = vec![0; SUBJECTS.len()];
    let mut ok_by_subject: Vec<u64> = vec![0; SUBJECTS.len()];
    let mut past_length_check = 0u64;
    let mut distinct: Vec<u64> = vec![];
    let mut max_req_seen = vec![0usize; SUBJECTS.len()];
    if track {
        alloc::REFUSE_ABOVE.store(1 << 31, std::sync::atomic::Ordering::Relaxed);
    }
    // warm up lazily initialised state outside the measured region
    for s in 0..SUBJECTS.len() {
        let _ = catch_unwind(AssertUnwindSafe(|| run_subject(s, b"")));
    }
    for idx in from..to {
        use std::os::unix::fs::FileExt;
        let _ = progress.write_all_at(&idx.to_le_bytes(), 0);
        let (subject, input, strategy) = gen_input(seed, idx);
        by_subject[subject] += 1;
        let live0 = alloc::live();
        if track {
            alloc::begin();
        }
        let r = catch_unwind(AssertUnwindSafe(|| run_subject(subject, &input)));
        let (max_req, growth) = if track { alloc::end(live0) } else { (0, 0) };
        let mut h = Hasher64::new();
        h.u(subject as u64);
        h.b(&input);
        match r {
            Ok((ok, out_len)) => {
                if ok {
                    ok_by_subject[subject] += 1;
                }
                if input.len() >= 9 {
                    past_length_check += 1;
                    distinct.push(h.0);
                }
                max_req_seen[subject] = max_req_seen[subject].max(max_req);
                let b = budget(subject, input.len(), out_len);
                if track && (max_req > b || growth.max(0) as usize > 4 * b) {
                    findings.push(json!({
                        "kind": "allocation", "subject": SUBJECTS[subject], "subject_id": subject, "idx": idx, "strategy": strategy,
                        "input_len": input.len(), "input_hex": hex_trunc(&input, 96), "output_len": out_len,
                        "largest_request": max_req, "peak_growth": growth, "budget": b,
                    }));
                }
            }
            Err(_) => {
                let (loc, msg) = PANIC_INFO.with(|p| p.borrow_mut().take()).unwrap_or_default();
                findings.push(json!({
                    "kind": "panic", "subject": SUBJECTS[subject], "subject_id": subject, "idx": idx, "strategy": strategy,
                    "input_len": input.len(), "input_hex": hex_trunc(&input, 96), "location": loc, "message": msg,
                }));
            }
        }
        if findings.len() > 4000 {
            break;
        }
    }
    let _ = progress.flush();
    let report = json!({
        "from": from, "to": to, "findings": findings, "by_subject": by_subject, "ok_by_subject": ok_by_subject,
        "past_length_check": past_length_check, "distinct": distinct, "max_request_by_subject": max_req_seen, "completed": true,
    });
    std::fs::write(out_path, serde_json::to_vec(&report).unwrap()).expect("child report");
}

thread_local! {
    static PANIC_INFO: std::cell::RefCell<Option<(String, String)>> = const { std::cell::RefCell::new(None) };
}

fn norm_loc(loc: &str) -> String {
    crate::routersim::exec::normalise_location(loc)
}

// ---------------------------------------------------------------------------------------
// parent
// ---------------------------------------------------------------------------------------
pub fn run(rep: &mut StageReport, tier: &str, seed: u64, exe: &str, work: &str) {
    let thorough = tier == "thorough";
    let total: u64 = if thorough { 48_000_000 } else { 3_200_000 };
    let shards = 16u64;
    let per = total / shards;
    let _ = std::fs::create_dir_all(work);
    let mut handles = vec![];
    for s in 0..shards {
        let (exe, work) = (exe.to_string(), work.to_string());
        handles.push(std::thread::spawn(move || shard(&exe, &work, seed, s, s * per, (s + 1) * per, true, None)));
    }
    let mut all: Vec<ShardResult> = vec![];
    for h in handles {
        if let Ok(r) = h.join() {
            all.push(r);
        }
    }
    // memcheck on a reduced shard (thorough): sees through the C decoders (zlib, libzstd)
    if thorough && std::path::Path::new("/usr/bin/valgrind").exists() {
        let n = 30_000u64;
        let mut hs = vec![];
        for s in 0..16u64 {
            let (exe, work) = (exe.to_string(), work.to_string());
            let from = total + s * (n / 16);
            let to = from + n / 16;
            hs.push(std::thread::spawn(move || {
                let log = format!("{}/memcheck-{}.log", work, s);
                let r = shard(&exe, &work, seed, 100 + s, from, to, false, Some(log.clone()));
                (r, log)
            }));
        }
        let mut reports = 0u64;
        let mut inputs = 0u64;
        let mut first: Option<String> = None;
        for h in hs {
            if let Ok((r, log)) = h.join() {
                inputs += r.executed;
                if let Ok(txt) = std::fs::read_to_string(&log) {
                    for line in txt.lines() {
                        if line.contains("Invalid read") || line.contains("Invalid write") || line.contains("Invalid free") || line.contains("Mismatched free") || line.contains("overlap in mem") || line.contains("Source and destination overlap") {
                            reports += 1;
                            if first.is_none() {
                                first = Some(txt.lines().skip_while(|l| *l != line).take(14).collect::<Vec<_>>().join("\n"));
                            }
                        }
                    }
                }
                let _ = std::fs::remove_file(&log);
                all.push(ShardResult { executed: 0, ..r });
            }
        }
        rep.count("memcheck_inputs", inputs);
        rep.count("memcheck_error_reports", reports);
        if let Some(f) = first {
            let path = write_replay("C06", "memcheck", 0, json!({"property": "C06", "valgrind_report": f}));
            rep.violation(Violation { signature: "C06/decoders/memcheck-invalid-access".into(), detail: format!("valgrind memcheck reported {} invalid accesses; first:\n{}", reports, f), replay: path });
        }
    }
    let mut distinct = std::collections::HashSet::new();
    for r in all {
        rep.evaluations += r.executed;
        rep.count("inputs_past_length_check(≥9 bytes)", r.past_length_check);
        for d in r.distinct {
            distinct.insert(d);
        }
        for (i, n) in r.by_subject.iter().enumerate() {
            rep.count(&format!("inputs/{}", SUBJECTS[i]), *n);
        }
        for (i, n) in r.ok_by_subject.iter().enumerate() {
            rep.count(&format!("decoded-ok/{}", SUBJECTS[i]), *n);
        }
        for (i, n) in r.max_req.iter().enumerate() {
            let k = format!("largest_single_allocation/{}", SUBJECTS[i]);
            let cur = rep.counters.get(&k).copied().unwrap_or(0);
            rep.counters.insert(k, cur.max(*n as u64));
        }
        for (why, n) in r.inconclusive {
            for _ in 0..n {
                rep.inconclusive(&why);
            }
        }
        for f in r.findings {
            let kind = f["kind"].as_str().unwrap_or("?").to_string();
            let subject = f["subject"].as_str().unwrap_or("?").to_string();
            let (sig, detail) = match kind.as_str() {
                "panic" => (
                    format!("C06/decoders/panic/{}/{}", subject, norm_loc(f["location"].as_str().unwrap_or(""))),
                    format!("{} panicked at {} ({}) on a {}-byte {} input: {}", subject, f["location"].as_str().unwrap_or(""), f["message"].as_str().unwrap_or(""), f["input_len"], f["strategy"].as_str().unwrap_or(""), f["input_hex"].as_str().unwrap_or("")),
                ),
                "allocation" => (
                    // the size class (bit length of the largest request) is part of the signature,
                    // so that a different allocation defect of the same decoder is still reported
                    format!("C06/decoders/allocation/{}/2^{}", subject, 63 - f["largest_request"].as_u64().unwrap_or(1).max(1).leading_zeros()),
                    format!("{} requested {} bytes in one allocation (peak growth {}) for a {}-byte input decoding to {} bytes; budget {}; input: {}", subject, f["largest_request"], f["peak_growth"], f["input_len"], f["output_len"], f["budget"], f["input_hex"].as_str().unwrap_or("")),
                ),
                "abort" => (
                    format!("C06/decoders/abort/{}", subject),
                    format!("{} aborted the process ({}) on a {}-byte {} input: {}", subject, f["how"].as_str().unwrap_or(""), f["input_len"], f["strategy"].as_str().unwrap_or(""), f["input_hex"].as_str().unwrap_or("")),
                ),
                _ => (format!("C06/decoders/{}", kind), f.to_string()),
            };
            let already = rep.violations.iter().filter(|v| v.signature == sig).count();
            let replay = if already < 2 {
                write_replay("C06", &sig.replace("C06/decoders/", ""), f["idx"].as_u64().unwrap_or(0), json!({"property": "C06", "seed": seed, "finding": f,
                    "replay_cmd": format!("{} --c06-one --seed {} --idx {}", exe, seed, f["idx"])}))
            } else {
                String::new()
            };
            rep.violation(Violation { signature: sig, detail, replay });
        }
    }
    rep.distinct = distinct;
    // samples
    for idx in [3u64, 1001, 20_002, 77_013] {
        let (s, input, strat) = gen_input(seed, idx);
        rep.sample(json!({"subject": SUBJECTS[s], "strategy": strat, "input_hex": hex_trunc(&input, 48), "input_len": input.len()}));
    }
    rep.rule = "deterministically generated inputs per decoder: random bytes, valid encodings, truncations at every offset, bit flips, length fields replaced by len±k / 2^k / u64::MAX (LE and BE), adversarial length templates, splices, short headers, cross-decoder confusion; each run in a child process under catch_unwind with a counting allocator (largest single request vs budget) — an abort is attributed through the progress file; non-trivial = input of ≥ 9 bytes (gets past the length/header check); distinct = distinct (decoder, input)".into();
    rep.assumptions.push("allocations made inside libzstd/zlib via malloc are not seen by the Rust global allocator; they are bounded by the formats' window sizes and covered by the memcheck shards of the thorough tier".into());
}

pub struct ShardResult {
    executed: u64,
    findings: Vec<Value>,
    by_subject: Vec<u64>,
    ok_by_subject: Vec<u64>,
    past_length_check: u64,
    distinct: Vec<u64>,
    max_req: Vec<usize>,
    inconclusive: Vec<(String, u64)>,
}

#[allow(clippy::too_many_arguments)]
fn shard(exe: &str, work: &str, seed: u64, shard_no: u64, from: u64, to: u64, track: bool, memcheck_log: Option<String>) -> ShardResult {
    let mut res = ShardResult { executed: 0, findings: vec![], by_subject: vec![0; SUBJECTS.len()], ok_by_subject: vec![0; SUBJECTS.len()], past_length_check: 0, distinct: vec![], max_req: vec![0; SUBJECTS.len()], inconclusive: vec![] };
    let mut cur = from;
    let mut restarts = 0;
    while cur < to {
        let progress = format!("{}/c06-progress-{}", work, shard_no);
        let out = format!("{}/c06-child-{}.json", work, shard_no);
        let _ = std::fs::remove_file(&out);
        let mut cmd = if let Some(log) = &memcheck_log {
            let mut c = std::process::Command::new("valgrind");
            c.args(["--tool=memcheck", "--undef-value-errors=no", "--leak-check=no", "-q", &format!("--log-file={}", log), exe]);
            c
        } else {
            std::process::Command::new(exe)
        };
        cmd.args(["--c06-child", "--seed", &seed.to_string(), "--from", &cur.to_string(), "--to", &to.to_string(), "--progress", &progress, "--child-out", &out]);
        if !track {
            cmd.arg("--no-track");
        }
        cmd.stdout(std::process::Stdio::null()).stderr(std::process::Stdio::piped());
        let output = match cmd.output() {
            Ok(o) => o,
            Err(e) => {
                res.inconclusive.push((format!("could not spawn decoder child: {}", e), 1));
                return res;
            }
        };
        let stderr = String::from_utf8_lossy(&output.stderr).to_string();
        if let Ok(txt) = std::fs::read(&out) {
            if let Ok(v) = serde_json::from_slice::<Value>(&txt) {
                absorb(&mut res, &v);
                res.executed += to - cur;
                let _ = std::fs::remove_file(&out);
                let _ = std::fs::remove_file(&progress);
                return res;
            }
        }
        // the child died: attribute to the input recorded in the progress file
        let idx = std::fs::read(&progress).ok().and_then(|b| if b.len() >= 8 { Some(u64::from_le_bytes(b[..8].try_into().unwrap())) } else { None });
        let idx = match idx {
            Some(i) if i >= cur && i < to => i,
            _ => {
                res.inconclusive.push((format!("decoder child died without progress information (status {:?})", output.status), 1));
                return res;
            }
        };
        let (subject, input, strategy) = gen_input(seed, idx);
        let refused = stderr.lines().find(|l| l.starts_with("ALLOC-REFUSED")).map(|l| l.to_string());
        use std::os::unix::process::ExitStatusExt;
        let how = format!("{}{}", match output.status.signal() { Some(s) => format!("killed by signal {}", s), None => format!("exit status {:?}", output.status.code()) }, refused.as_ref().map(|r| format!("; allocator refused a request: {}", r)).unwrap_or_default());
        if let Some(r) = &refused {
            let size: usize = r.split_whitespace().nth(1).and_then(|s| s.parse().ok()).unwrap_or(0);
            res.findings.push(json!({"kind": "allocation", "subject": SUBJECTS[subject], "subject_id": subject, "idx": idx, "strategy": strategy, "input_len": input.len(), "input_hex": hex_trunc(&input, 96), "output_len": 0, "largest_request": size, "peak_growth": size, "budget": budget(subject, input.len(), 0), "aborted": true}));
        } else {
            res.findings.push(json!({"kind": "abort", "subject": SUBJECTS[subject], "subject_id": subject, "idx": idx, "strategy": strategy, "input_len": input.len(), "input_hex": hex_trunc(&input, 96), "how": how, "stderr": stderr.chars().take(400).collect::<String>()}));
        }
        res.executed += idx + 1 - cur;
        res.by_subject[subject] += 1;
        cur = idx + 1;
        restarts += 1;
        if restarts > 400 {
            res.inconclusive.push(("decoder child was restarted more than 400 times in one shard; remaining inputs skipped".into(), 1));
            break;
        }
    }
    res
}

fn absorb(res: &mut ShardResult, v: &Value) {
    if let Some(a) = v["findings"].as_array() {
        res.findings.extend(a.iter().cloned());
    }
    for (i, n) in v["by_subject"].as_array().map(|a| a.iter().map(|x| x.as_u64().unwrap_or(0)).collect::<Vec<_>>()).unwrap_or_default().iter().enumerate() {
        res.by_subject[i] += n;
    }
    for (i, n) in v["ok_by_subject"].as_array().map(|a| a.iter().map(|x| x.as_u64().unwrap_or(0)).collect::<Vec<_>>()).unwrap_or_default().iter().enumerate() {
        res.ok_by_subject[i] += n;
    }
    res.past_length_check += v["past_length_check"].as_u64().unwrap_or(0);
    if let Some(a) = v["distinct"].as_array() {
        res.distinct.extend(a.iter().filter_map(|x| x.as_u64()));
    }
    for (i, n) in v["max_request_by_subject"].as_array().map(|a| a.iter().map(|x| x.as_u64().unwrap_or(0) as usize).collect::<Vec<_>>()).unwrap_or_default().iter().enumerate() {
        res.max_req[i] = res.max_req[i].max(*n);
    }
}

/// replay one input in-process (prints what happens; an abort is visible to the caller)
pub fn run_one(seed: u64, idx: u64) {
    let (subject, input, strategy) = gen_input(seed, idx);
    println!("subject: {}\nstrategy: {}\ninput ({} bytes): {}", SUBJECTS[subject], strategy, input.len(), hex_trunc(&input, 200));
    alloc::REFUSE_ABOVE.store(1 << 31, std::sync::atomic::Ordering::Relaxed);
    let live0 = alloc::live();
    alloc::begin();
    let r = catch_unwind(AssertUnwindSafe(|| run_subject(subject, &input)));
    let (max_req, growth) = alloc::end(live0);
    match r {
        Ok((ok, out)) => {
            let b = budget(subject, input.len(), out);
            println!("returned {} (output {} bytes); largest single allocation {} bytes, peak growth {}, budget {}", if ok { "Ok" } else { "Err" }, out, max_req, growth, b);
            if max_req > b {
                println!("REPLAY: violation reproduced (allocation unrelated to input/output size)");
                std::process::exit(1);
            }
            println!("REPLAY: no violation on this tree");
        }
        Err(_) => {
            println!("REPLAY: violation reproduced (panic)");
            std::process::exit(1);
        }
    }
}

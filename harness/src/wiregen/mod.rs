//! L2: boundary monitors for pure functions (codec, frames, batches, topic names, backoff,
//! payload codecs and compressors) and the L4 process sandbox for decoders.

pub mod c05;
pub mod c06;
pub mod c07;
pub mod c13;
pub mod c14;

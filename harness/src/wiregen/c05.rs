//! C05 — wire formats round-trip and reassemble; the 1 MiB frame limit holds both ways.

use crate::common::{hex_trunc, write_replay, Rng, StageReport, Violation};
use bytes::{Buf, Bytes, BytesMut};
use futures::StreamExt;
use selium_protocol::utils::{decode_message_batch, encode_message_batch};
use selium_protocol::{
    ErrorPayload, Frame, MessageCodec, MessagePayload, Operation, PublisherPayload, ReplierPayload,
    RequestorPayload, SubscriberPayload, TopicName,
};
use serde_json::json;
use std::collections::HashMap;
use std::panic::{catch_unwind, AssertUnwindSafe};
use std::pin::Pin;
use std::task::{Context, Poll};
use tokio::io::{AsyncRead, ReadBuf};
use tokio_util::codec::{Decoder, Encoder, FramedRead};

pub const LIMIT: usize = 1024 * 1024;

fn rand_string(rng: &mut Rng, max: usize) -> String {
    let n = rng.below(max as u64 + 1) as usize;
    (0..n)
        .map(|_| match rng.below(10) {
            0 => 'é',
            1 => '中',
            2 => '/',
            3 => '\0',
            _ => (b'a' + rng.below(26) as u8) as char,
        })
        .collect()
}

fn rand_topic(rng: &mut Rng) -> TopicName {
    // arbitrary topics via the unchecked constructor (the codec must not care)
    // … including names only the unchecked constructor (or a build without the topic check, or the server's own cloud
    // proxy) produces: the reserved namespace, empty parts
    match rng.below(12) {
        0 => TopicName::_create_unchecked("selium", &rand_string(rng, 12)),
        1 => TopicName::_create_unchecked(&format!("selium{}", rand_string(rng, 6)), "proxy"),
        2 => TopicName::_create_unchecked("", ""),
        _ => TopicName::_create_unchecked(&rand_string(rng, 20), &rand_string(rng, 20)),
    }
}

/// every part of every frame kind can be large, not only message bodies: one operation path of hundreds of KB, or
/// thousands of short ones (registrations are bounded by the frame limit like everything else)
fn rand_ops_sized(rng: &mut Rng, small: bool) -> Vec<Operation> {
    if !small && rng.below(40) == 0 {
        return match rng.below(3) {
            0 => vec![Operation::Map("m".repeat(rng.range(60_000, 900_000) as usize))],
            1 => (0..rng.range(1200, 4000)).map(|i| if i % 2 == 0 { Operation::Map(format!("modules/step-{:05}/transform.wasm", i)) } else { Operation::Filter(format!("modules/step-{:05}/filter.wasm", i)) }).collect(),
            _ => vec![Operation::Filter("f".repeat(65_500 + rng.below(80) as usize))],
        };
    }
    rand_ops(rng)
}

fn rand_headers_sized(rng: &mut Rng, small: bool) -> Option<HashMap<String, String>> {
    if !small && rng.below(40) == 0 {
        let mut h = HashMap::new();
        if rng.pct(50) {
            h.insert("big".to_string(), "v".repeat(rng.range(60_000, 700_000) as usize));
        } else {
            for i in 0..rng.range(1000, 5000) {
                h.insert(format!("header-{:05}", i), format!("value-{}", i));
            }
        }
        return Some(h);
    }
    rand_headers(rng)
}

fn rand_ops(rng: &mut Rng) -> Vec<Operation> {
    let n = rng.below(4);
    (0..n)
        .map(|_| {
            if rng.pct(50) {
                Operation::Map(rand_string(rng, 30))
            } else {
                Operation::Filter(rand_string(rng, 30))
            }
        })
        .collect()
}

fn rand_headers(rng: &mut Rng) -> Option<HashMap<String, String>> {
    match rng.below(4) {
        0 => None,
        1 => Some(HashMap::new()),
        _ => {
            let n = rng.below(4);
            let mut h = HashMap::new();
            for _ in 0..n {
                h.insert(rand_string(rng, 10), rand_string(rng, 20));
            }
            Some(h)
        }
    }
}

fn payload(rng: &mut Rng, n: usize) -> Bytes {
    if n > 4096 {
        // large payloads: cheap deterministic fill with a random stamp
        let mut v = vec![0xA5u8; n];
        let stamp = rng.bytes(16);
        v[..16].copy_from_slice(&stamp);
        let l = v.len();
        v[l - 16..].copy_from_slice(&stamp);
        Bytes::from(v)
    } else {
        Bytes::from(rng.bytes(n))
    }
}

pub fn rand_frame(rng: &mut Rng, small: bool) -> Frame {
    let size = |rng: &mut Rng| -> usize {
        if small {
            rng.below(64) as usize
        } else {
            match rng.below(10) {
                0 => 0,
                1 => 1,
                2 => rng.below(70_000) as usize,
                _ => rng.below(300) as usize,
            }
        }
    };
    match rng.below(8) {
        0 => Frame::RegisterPublisher(PublisherPayload { topic: rand_topic(rng), retention_policy: rng.next_u64() >> rng.below(64), operations: rand_ops_sized(rng, small) }),
        1 => Frame::RegisterSubscriber(SubscriberPayload { topic: rand_topic(rng), retention_policy: rng.next_u64() >> rng.below(64), operations: rand_ops_sized(rng, small) }),
        2 => Frame::RegisterReplier(ReplierPayload { topic: rand_topic(rng) }),
        3 => Frame::RegisterRequestor(RequestorPayload { topic: rand_topic(rng) }),
        4 => {
            let n = size(rng);
            Frame::Message(MessagePayload { headers: rand_headers_sized(rng, small), message: payload(rng, n) })
        }
        5 => {
            let n = size(rng);
            Frame::BatchMessage(payload(rng, n))
        }
        6 => {
            let n = size(rng);
            Frame::Error(ErrorPayload { code: rng.next_u64() as u32, message: payload(rng, n) })
        }
        _ => Frame::Ok,
    }
}

/// a frame whose *encoded payload length* is exactly `target`
pub fn frame_with_len(rng: &mut Rng, kind: u8, target: usize) -> Option<Frame> {
    match kind {
        0 => Some(Frame::BatchMessage(payload(rng, target))),
        1 => {
            // Message with headers None: 1 (option tag) + 8 (len) + payload
            if target < 9 {
                return None;
            }
            Some(Frame::Message(MessagePayload { headers: None, message: payload(rng, target - 9) }))
        }
        2 => {
            // Message with one header k="cid" v="7": 1 + 8 + (8+3) + (8+1) + 8 + payload
            let fixed = 1 + 8 + 11 + 9 + 8;
            if target < fixed {
                return None;
            }
            let mut h = HashMap::new();
            h.insert("cid".to_string(), "7".to_string());
            Some(Frame::Message(MessagePayload { headers: Some(h), message: payload(rng, target - fixed) }))
        }
        _ => {
            // Error: 4 (code) + 8 (len) + payload
            if target < 12 {
                return None;
            }
            Some(Frame::Error(ErrorPayload { code: 1, message: payload(rng, target - 12) }))
        }
    }
}

fn describe(f: &Frame) -> String {
    let s = format!("{:?}", f);
    if s.chars().count() > 200 {
        format!("{}…({} chars)", s.chars().take(180).collect::<String>(), s.chars().count())
    } else {
        s
    }
}

struct Viol(String, String);

fn enc(f: &Frame) -> Result<BytesMut, String> {
    let mut buf = BytesMut::new();
    MessageCodec.encode(f.clone(), &mut buf).map(|_| buf).map_err(|e| e.to_string())
}

/// (1) header layout + exact consumption + equality
fn check_roundtrip(f: &Frame, trailer: &[u8]) -> Result<(), Viol> {
    let buf = enc(f).map_err(|e| Viol("encode-refused".into(), format!("encoder refused a frame within the limit: {} ({})", describe(f), e)))?;
    if buf.len() < 9 {
        return Err(Viol("layout".into(), "encoding shorter than the 9-byte header".into()));
    }
    let announced = u64::from_be_bytes(buf[..8].try_into().unwrap()) as usize;
    let body = buf.len() - 9;
    let gl = f.get_length().map_err(|e| Viol("get_length".into(), e.to_string()))? as usize;
    if announced != body || gl != body {
        return Err(Viol("length-prefix".into(), format!("length prefix {} / get_length {} but {} payload bytes were written for {}", announced, gl, body, describe(f))));
    }
    if buf[8] != f.get_type() {
        return Err(Viol("layout".into(), format!("type byte {} != get_type {}", buf[8], f.get_type())));
    }
    let mut src = BytesMut::from(&buf[..]);
    src.extend_from_slice(trailer);
    let got = MessageCodec.decode(&mut src).map_err(|e| Viol("decode-error".into(), format!("decoding the encoding of {} failed: {}", describe(f), e)))?;
    match got {
        Some(g) if g == *f => {}
        Some(g) => return Err(Viol("roundtrip-mismatch".into(), format!("decode(encode(f)) != f: sent {}, got {}", describe(f), describe(&g)))),
        None => return Err(Viol("decode-incomplete".into(), format!("decoder wants more bytes for a complete frame {}", describe(f)))),
    }
    if &src[..] != trailer {
        return Err(Viol("consumption".into(), format!("decoder left {} bytes, expected exactly the {} trailing bytes", src.len(), trailer.len())));
    }
    Ok(())
}

/// decode a chunked byte stream the way FramedRead drives a Decoder
fn decode_chunked(stream: &[u8], cuts: &[usize]) -> Result<Vec<Frame>, String> {
    let mut out = vec![];
    let mut buf = BytesMut::new();
    let mut codec = MessageCodec;
    let mut pos = 0;
    let mut bounds: Vec<usize> = cuts.to_vec();
    bounds.push(stream.len());
    for b in bounds {
        if b < pos {
            continue;
        }
        buf.extend_from_slice(&stream[pos..b]);
        pos = b;
        loop {
            match codec.decode(&mut buf) {
                Ok(Some(f)) => out.push(f),
                Ok(None) => break,
                Err(e) => return Err(e.to_string()),
            }
        }
    }
    if !buf.is_empty() {
        return Err(format!("{} undecoded bytes left at end of stream", buf.len()));
    }
    Ok(out)
}

struct ChunkReader {
    data: Vec<u8>,
    cuts: Vec<usize>,
    pos: usize,
    next_cut: usize,
}

impl AsyncRead for ChunkReader {
    fn poll_read(mut self: Pin<&mut Self>, _cx: &mut Context<'_>, buf: &mut ReadBuf<'_>) -> Poll<std::io::Result<()>> {
        if self.pos >= self.data.len() {
            return Poll::Ready(Ok(()));
        }
        while self.next_cut < self.cuts.len() && self.cuts[self.next_cut] <= self.pos {
            self.next_cut += 1;
        }
        let end = if self.next_cut < self.cuts.len() { self.cuts[self.next_cut] } else { self.data.len() };
        let n = (end - self.pos).min(buf.remaining());
        let (p, d) = (self.pos, &self.data);
        buf.put_slice(&d[p..p + n]);
        self.pos += n;
        Poll::Ready(Ok(()))
    }
}

fn decode_framed_read(stream: &[u8], cuts: &[usize]) -> Result<Vec<Frame>, String> {
    let reader = ChunkReader { data: stream.to_vec(), cuts: cuts.to_vec(), pos: 0, next_cut: 0 };
    let mut fr = FramedRead::new(reader, MessageCodec);
    let mut out = vec![];
    futures::executor::block_on(async {
        while let Some(r) = fr.next().await {
            match r {
                Ok(f) => out.push(f),
                Err(e) => return Err(e.to_string()),
            }
        }
        Ok(())
    })?;
    Ok(out)
}

fn report(rep: &mut StageReport, v: Viol, case_id: u64, body: serde_json::Value) {
    let signature = format!("C05/codec/{}", v.0);
    let already = rep.violations.iter().filter(|x| x.signature == signature).count();
    let replay = if already < 2 {
        write_replay("C05", &v.0, case_id, json!({"property": "C05", "detail": v.1, "case": body}))
    } else {
        String::new()
    };
    rep.violation(Violation { signature, detail: v.1, replay });
}

pub fn run(rep: &mut StageReport, tier: &str, seed: u64) {
    let thorough = tier == "thorough";
    let mut rng = Rng::new(seed ^ 0xC05);
    let miri = cfg!(miri);
    // ---- (1) single-frame round trips ------------------------------------------------------
    let n_frames = if miri { 60 } else if thorough { 2_000_000 } else { 200_000 };
    for i in 0..n_frames {
        let f = rand_frame(&mut rng, miri);
        let trailer = if rng.pct(50) { rng.rbytes(12) } else { vec![] };
        rep.evaluations += 1;
        let r = catch_unwind(AssertUnwindSafe(|| check_roundtrip(&f, &trailer)));
        match r {
            Ok(Ok(())) => {
                let b = enc(&f).unwrap();
                if b.len() > 9 {
                    rep.distinct.insert(crate::common::fnv(&b));
                }
                if i % 9001 == 3 {
                    rep.sample(json!({"check": "roundtrip", "frame": describe(&f), "encoding": hex_trunc(&b, 64), "trailing_bytes": trailer.len()}));
                }
            }
            Ok(Err(v)) => report(rep, v, i as u64, json!({"frame": describe(&f)})),
            Err(_) => report(rep, Viol("panic/roundtrip".into(), format!("codec panicked on {}", describe(&f))), i as u64, json!({"frame": describe(&f)})),
        }
    }
    rep.count("roundtrip_frames", n_frames as u64);

    // ---- (3)+(4) the limit, both ways -----------------------------------------------------------
    if !miri {
        let span: i64 = if thorough { 40 } else { 12 };
        for kind in 0..4u8 {
            for d in -span..=span {
                let target = (LIMIT as i64 + d) as usize;
                let f = match frame_with_len(&mut rng, kind, target) {
                    Some(f) => f,
                    None => continue,
                };
                rep.evaluations += 1;
                let gl = f.get_length().unwrap_or(0) as usize;
                if gl != target {
                    rep.inconclusive("limit sweep: constructed frame has a different encoded length than intended");
                    continue;
                }
                let r = enc(&f);
                if target > LIMIT {
                    if r.is_ok() {
                        report(rep, Viol("limit/encoder-accepts-oversize".into(), format!("encoder accepted a payload of {} bytes (> 1 MiB), kind {}", target, kind)), target as u64, json!({"kind": kind, "len": target}));
                    } else {
                        rep.distinct.insert(crate::common::mix(kind as u64, target as u64));
                    }
                } else {
                    match r {
                        Err(e) => report(rep, Viol("limit/encoder-refuses-within-limit".into(), format!("encoder refused a payload of {} bytes (≤ 1 MiB): {}", target, e)), target as u64, json!({"kind": kind, "len": target})),
                        Ok(_) => {
                            if let Err(v) = check_roundtrip(&f, b"xy") {
                                report(rep, v, target as u64, json!({"kind": kind, "len": target}));
                            } else {
                                rep.distinct.insert(crate::common::mix(kind as u64, target as u64));
                            }
                        }
                    }
                }
                rep.count("limit_sweep_encode_cases", 1);
            }
        }
    }
    // a refused frame must leave the outgoing buffer untouched: the byte stream stays the concatenation of the
    // accepted frames (FramedWrite keeps using the same buffer after an encoder error)
    if !miri {
        let n_mixed = if thorough { 400 } else { 60 };
        for i in 0..n_mixed {
            rep.evaluations += 1;
            let mut buf = BytesMut::new();
            let mut accepted: Vec<Frame> = vec![];
            let k = rng.range(2, 6);
            let mut refused = 0;
            let mut bad: Option<Viol> = None;
            for j in 0..k {
                if j > 0 && rng.pct(40) {
                    // an oversize frame of a random kind
                    let span = if rng.pct(50) { 40 } else { 300_000 };
                    let over = LIMIT + 1 + rng.below(span) as usize;
                    let kind = rng.below(4) as u8;
                    let f = match frame_with_len(&mut rng, kind, over) {
                        Some(f) => f,
                        None => continue,
                    };
                    let before = buf.clone();
                    match MessageCodec.encode(f, &mut buf) {
                        Err(_) => {
                            refused += 1;
                            if buf != before {
                                bad = Some(Viol("limit/refused-frame-left-in-buffer".into(), format!("the encoder refused a {}-byte payload but left {} extra bytes in the outgoing buffer (was {} bytes, now {})", over, buf.len() as i64 - before.len() as i64, before.len(), buf.len())));
                                break;
                            }
                        }
                        Ok(()) => {
                            bad = Some(Viol("limit/encoder-accepts-oversize".into(), format!("encoder accepted a payload of {} bytes", over)));
                            break;
                        }
                    }
                } else {
                    let f = rand_frame(&mut rng, true);
                    if MessageCodec.encode(f.clone(), &mut buf).is_ok() {
                        accepted.push(f);
                    }
                }
            }
            if bad.is_none() && refused > 0 {
                match decode_chunked(&buf, &[]) {
                    Ok(got) if got == accepted => {
                        let mut h = crate::common::Hasher64::new();
                        h.b(&buf);
                        h.u(refused as u64);
                        rep.distinct.insert(h.0);
                    }
                    Ok(got) => bad = Some(Viol("limit/stream-corrupted-by-refused-frame".into(), format!("{} frames accepted and {} refused, {} decoded", accepted.len(), refused, got.len()))),
                    Err(e) => bad = Some(Viol("limit/stream-corrupted-by-refused-frame".into(), format!("{} frames accepted and {} refused; decoding the buffer failed: {}", accepted.len(), refused, e))),
                }
            }
            if let Some(v) = bad {
                report(rep, v, i as u64, json!({"accepted_frames": accepted.len(), "refused": refused}));
            }
        }
        rep.count("streams_with_refused_frames", n_mixed as u64);
    }
    // bare headers announcing a length: decoder must refuse > 1 MiB *now*, and wait otherwise
    let mut lens: Vec<u64> = vec![0, 1, 8, (LIMIT - 1) as u64, LIMIT as u64, LIMIT as u64 + 1, LIMIT as u64 + 2, 2 * LIMIT as u64, u32::MAX as u64, 1 << 40, u64::MAX - 1, u64::MAX, 1 << 63];
    for _ in 0..if miri { 10 } else if thorough { 20000 } else { 2000 } {
        lens.push(match rng.below(3) {
            0 => LIMIT as u64 + rng.below(1000),
            1 => rng.next_u64(),
            _ => rng.below(2 * LIMIT as u64),
        });
    }
    for (i, l) in lens.iter().enumerate() {
        for extra in [0usize, 1, 5] {
            for ty in [0u8, 4, 5, 7, 200] {
                rep.evaluations += 1;
                let mut src = BytesMut::new();
                src.extend_from_slice(&l.to_be_bytes());
                src.extend_from_slice(&[ty]);
                src.extend_from_slice(&vec![0u8; extra]);
                let before = src.len();
                let r = catch_unwind(AssertUnwindSafe(|| MessageCodec.decode(&mut src)));
                let big = *l > LIMIT as u64;
                match r {
                    Err(_) => report(rep, Viol("panic/decode-header".into(), format!("decoder panicked on a bare header announcing {} bytes", l)), i as u64, json!({"announced": l.to_string()})),
                    Ok(Err(_)) if big => {
                        rep.distinct.insert(crate::common::mix(*l, (extra as u64) << 8 | ty as u64));
                    }
                    Ok(Ok(None)) if !big && (extra as u64) < *l => {
                        if src.len() != before {
                            report(rep, Viol("consumption/partial".into(), format!("decoder consumed bytes of an incomplete frame (announced {})", l)), i as u64, json!({"announced": l.to_string()}));
                        }
                        if src.capacity() > 4 * LIMIT + 4096 {
                            report(rep, Viol("limit/decoder-buffers-early".into(), format!("decoder reserved {} bytes for an incomplete frame", src.capacity())), i as u64, json!({"announced": l.to_string()}));
                        }
                        rep.distinct.insert(crate::common::mix(*l, (extra as u64) << 8 | ty as u64));
                    }
                    Ok(Ok(None)) if big => report(rep, Viol("limit/decoder-waits-on-oversize".into(), format!("decoder answered `need more data` to a length prefix of {} bytes (> 1 MiB) instead of refusing it", l)), i as u64, json!({"announced": l.to_string(), "type": ty, "extra": extra})),
                    Ok(Ok(Some(f))) if big => report(rep, Viol("limit/decoder-accepts-oversize".into(), format!("decoder produced {} from a length prefix of {} bytes", describe(&f), l)), i as u64, json!({"announced": l.to_string()})),
                    Ok(Err(_)) | Ok(Ok(_)) => {
                        // within the limit and (possibly) complete: any Ok/Err answer is a decoding matter
                    }
                }
            }
        }
    }
    rep.count("bare_header_cases", (lens.len() * 15) as u64);
    // a frame whose length prefix exceeds the limit must be refused even when it is completely buffered when the
    // decoder first looks at it (large read buffers present whole frames)
    if !miri {
        for (i, over) in [1usize, 2, 9, 40, 4096, 300_000].iter().enumerate() {
            for ty in [5u8, 4, 7] {
                for tail in [0usize, 9, 50] {
                    rep.evaluations += 1;
                    let l = LIMIT + over;
                    let mut src = BytesMut::with_capacity(l + 64);
                    src.extend_from_slice(&(l as u64).to_be_bytes());
                    src.extend_from_slice(&[ty]);
                    src.resize(9 + l + tail, 0);
                    match catch_unwind(AssertUnwindSafe(|| MessageCodec.decode(&mut src))) {
                        Ok(Err(_)) => {
                            rep.distinct.insert(crate::common::mix(0xF011, (l as u64) << 8 | (ty as u64) << 2 | tail as u64 % 4));
                        }
                        Ok(Ok(Some(f))) => report(rep, Viol("limit/decoder-accepts-oversize".into(), format!("decoder produced a frame of type {} from a completely buffered frame whose length prefix is {} bytes (> 1 MiB)", f.get_type(), l)), i as u64, json!({"announced": l, "type": ty, "bytes_after_frame": tail})),
                        Ok(Ok(None)) => report(rep, Viol("limit/decoder-waits-on-oversize".into(), format!("decoder answered `need more data` to a completely buffered frame whose length prefix is {} bytes", l)), i as u64, json!({"announced": l})),
                        Err(_) => report(rep, Viol("panic/decode-oversize".into(), format!("decoder panicked on a completely buffered oversize frame ({} bytes)", l)), i as u64, json!({"announced": l})),
                    }
                }
            }
        }
        rep.count("complete_oversize_frame_cases", 54);
    }

    // ---- (2) streams of frames under every chunking -----------------------------------------------
    let n_streams = if miri { 8 } else if thorough { 100_000 } else { 8_000 };
    let mut chunkings = 0u64;
    for i in 0..n_streams {
        let k = rng.range(1, 6) as usize;
        let frames: Vec<Frame> = (0..k).map(|_| rand_frame(&mut rng, true)).collect();
        let mut stream = BytesMut::new();
        let mut ok = true;
        for f in &frames {
            if MessageCodec.encode(f.clone(), &mut stream).is_err() {
                ok = false;
            }
        }
        if !ok {
            continue;
        }
        let stream = stream.to_vec();
        let mut cut_sets: Vec<Vec<usize>> = vec![vec![]];
        // every single cut point for small streams
        if stream.len() <= 400 || i % 50 == 0 {
            for c in 1..stream.len() {
                cut_sets.push(vec![c]);
            }
        }
        // 1-byte drip
        if stream.len() <= 600 {
            cut_sets.push((1..stream.len()).collect());
        }
        // random multi-cuts, biased into headers
        for _ in 0..6 {
            let n = rng.range(1, 8) as usize;
            let mut c: Vec<usize> = (0..n).map(|_| rng.usize(stream.len().max(1))).collect();
            c.sort();
            c.dedup();
            cut_sets.push(c);
        }
        for (j, cuts) in cut_sets.iter().enumerate() {
            rep.evaluations += 1;
            chunkings += 1;
            let r = catch_unwind(AssertUnwindSafe(|| {
                let a = decode_chunked(&stream, cuts);
                // drive a real FramedRead for a sample of the chunkings
                let b = if j % 7 == 0 { Some(decode_framed_read(&stream, cuts)) } else { None };
                (a, b)
            }));
            match r {
                Err(_) => report(rep, Viol("panic/chunked-decode".into(), "decoder panicked on a chunked stream".into()), i as u64, json!({"stream": hex_trunc(&stream, 200), "cuts": cuts})),
                Ok((a, b)) => {
                    let mut results = vec![("decoder-loop", a)];
                    if let Some(b) = b {
                        results.push(("FramedRead", b));
                    }
                    let mut good = true;
                    for (how, res) in results {
                        match res {
                            Ok(got) if got == frames => {}
                            Ok(got) => {
                                good = false;
                                report(rep, Viol("reassembly-mismatch".into(), format!("{}: {} frames sent, {} decoded / different content under chunking {:?}", how, frames.len(), got.len(), &cuts[..cuts.len().min(10)])), i as u64, json!({"stream": hex_trunc(&stream, 300), "cuts": cuts}));
                            }
                            Err(e) => {
                                good = false;
                                report(rep, Viol("reassembly-error".into(), format!("{}: error {} under chunking {:?}", how, e, &cuts[..cuts.len().min(10)])), i as u64, json!({"stream": hex_trunc(&stream, 300), "cuts": cuts}));
                            }
                        }
                    }
                    if good && !cuts.is_empty() {
                        let mut h = crate::common::Hasher64::new();
                        h.b(&stream);
                        for c in cuts {
                            h.u(*c as u64);
                        }
                        rep.distinct.insert(h.0);
                    }
                    if good && i % 997 == 5 && j == cut_sets.len() - 1 {
                        rep.sample(json!({"check": "reassembly", "frames": frames.iter().map(describe).collect::<Vec<_>>(), "stream_len": stream.len(), "cuts": cuts}));
                    }
                }
            }
        }
    }
    rep.count("frame_streams", n_streams as u64);
    // ---- (2b) frames at the size limit, cut a few bytes before their end and inside their header -------------
    if !miri {
        let mut near_limit_chunkings = 0u64;
        for kind in 0u8..4 {
            for back in 0usize..=9 {
                let target = LIMIT - back;
                let Some(big) = frame_with_len(&mut rng, kind, target) else { continue };
                let frames = vec![rand_frame(&mut rng, true), big, rand_frame(&mut rng, true)];
                let mut stream = BytesMut::new();
                let mut bounds = vec![];
                let mut ok = true;
                for f in &frames {
                    if MessageCodec.encode(f.clone(), &mut stream).is_err() {
                        ok = false;
                    }
                    bounds.push(stream.len());
                }
                if !ok {
                    continue;
                }
                let stream = stream.to_vec();
                let (start_big, end_big) = (bounds[0], bounds[1]);
                let mut cut_sets: Vec<Vec<usize>> = vec![];
                for k in 1..=12usize {
                    cut_sets.push(vec![end_big - k]);
                    cut_sets.push(vec![start_big + k.min(10), end_big - k]);
                }
                cut_sets.push(vec![start_big + 9, start_big + 9 + LIMIT / 2, end_big - 3, end_big - 1]);
                for cuts in cut_sets.iter() {
                    rep.evaluations += 1;
                    near_limit_chunkings += 1;
                    match catch_unwind(AssertUnwindSafe(|| decode_chunked(&stream, cuts))) {
                        Err(_) => report(rep, Viol("panic/chunked-decode".into(), format!("decoder panicked on a stream holding a frame with a {}-byte payload (limit − {}), delivered in pieces cut at {:?} (the big frame spans {}..{})", target, back, cuts, start_big, end_big)), (kind as u64) << 8 | back as u64, json!({"cuts": cuts, "payload_len": target})),
                        Ok(Ok(got)) if got == frames => {
                            rep.distinct.insert(crate::common::mix(0x2b00 + kind as u64 * 16 + back as u64, crate::common::fnv(&cuts.iter().flat_map(|c| c.to_le_bytes()).collect::<Vec<u8>>())));
                        }
                        Ok(Ok(got)) => report(rep, Viol("reassembly-mismatch".into(), format!("3 frames sent (the middle one with a {}-byte payload), {} decoded / different content under chunking {:?}", target, got.len(), cuts)), back as u64, json!({"cuts": cuts})),
                        Ok(Err(e)) => report(rep, Viol("reassembly-error".into(), format!("frame with a {}-byte payload (limit − {}): error {} under chunking {:?}", target, back, e, cuts)), back as u64, json!({"cuts": cuts})),
                    }
                }
            }
        }
        rep.count("near_limit_chunkings", near_limit_chunkings);
    }
    rep.count("chunkings", chunkings);

    // ---- (5) batches ---------------------------------------------------------------------------------
    let n_batches = if miri { 30 } else if thorough { 1_000_000 } else { 100_000 };
    for i in 0..n_batches {
        rep.evaluations += 1;
        let n = match rng.below(6) {
            0 => 0,
            1 => 1,
            // (one list in 700 holds thousands of messages)
            _ if !miri && i % 700 == 9 => *rng.pick(&[4095usize, 4096, 4097, 5000, 9000, 65_536, 70_000]),
            _ => rng.below(12) as usize,
        };
        // one list in 500 carries messages around and beyond the frame limit: a batch is compressed as a whole
        // before it is framed, so what it holds is not bounded by the frame limit
        let huge = !miri && i % 500 == 7;
        let list: Vec<Bytes> = (0..n)
            .map(|_| {
                let l = match rng.below(5) {
                    0 => 0,
                    1 => if miri { 40 } else { rng.below(5000) as usize },
                    2 if huge => *rng.pick(&[65_536usize, 1_048_575, 1_048_576, 1_048_577, 1_100_000, 3_145_728]),
                    _ => rng.below(40) as usize,
                };
                if l > 100_000 { Bytes::from(vec![(l % 251) as u8; l]) } else { payload(&mut rng, l) }
            })
            .collect();
        let l2 = list.clone();
        let r = catch_unwind(AssertUnwindSafe(move || {
            let enc = encode_message_batch(l2);
            let total = enc.len();
            (decode_message_batch(enc).unwrap_or_else(|_| vec![Bytes::from_static(b"<decode error>")]), total)
        }));
        match r {
            Err(_) => report(rep, Viol("panic/batch".into(), format!("batch round trip panicked for a list of {} messages", n)), i as u64, json!({"sizes": list.iter().map(|b| b.len()).collect::<Vec<_>>()})),
            Ok((back, total)) => {
                let expect_total = 8 + list.iter().map(|b| 8 + b.len()).sum::<usize>();
                if back != list {
                    report(rep, Viol("batch-mismatch".into(), format!("unbatch(batch(l)) != l for sizes {:?}: got sizes {:?}", list.iter().map(|b| b.len()).collect::<Vec<_>>(), back.iter().map(|b| b.len()).collect::<Vec<_>>())), i as u64, json!({}));
                } else if total != expect_total {
                    report(rep, Viol("batch-layout".into(), format!("batch encoding is {} bytes, the count+(len,bytes)* layout gives {}", total, expect_total)), i as u64, json!({}));
                } else {
                    let mut h = crate::common::Hasher64::new();
                    for b in &list {
                        h.b(b);
                    }
                    if n > 0 {
                        rep.distinct.insert(h.0);
                    }
                    if i % 7001 == 9 {
                        rep.sample(json!({"check": "batch", "message_sizes": list.iter().map(|b| b.len()).collect::<Vec<_>>(), "encoded_len": total}));
                    }
                }
            }
        }
    }
    rep.count("batches", n_batches as u64);
    let _ = Buf::remaining(&Bytes::new());
    rep.rule = "generated frames of all 8 kinds (arbitrary topics via the unchecked constructor, header maps, operations, payload sizes incl. a sweep of the encoded length across limit±40), bare 9-byte headers announcing 0..u64::MAX, streams of 1–6 frames under every single cut / 1-byte drip / random multi-cuts (decoder loop and a real tokio_util FramedRead), and message lists; non-trivial = non-empty payload or at least one cut; distinct = distinct encoding (+ cut set)".into();
}

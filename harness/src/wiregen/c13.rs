//! C13 — backoff schedules follow their law, are clamped, finite and panic-free.
//! Oracle written from the property text with u128 arithmetic.

use crate::common::{Rng, StageReport, Violation, write_replay};
use selium::keep_alive::BackoffStrategy;
use serde_json::json;
use std::panic::{catch_unwind, AssertUnwindSafe};
use std::time::Duration;

#[derive(Clone, Copy, Debug)]
enum Law {
    Constant,
    Linear,
    Exponential(u64),
}

#[derive(Clone, Debug)]
struct Cfg {
    law: Law,
    step: Duration,
    attempts: u32,
    cap: Option<Duration>,
    /// builder call order / decoy calls (0 = one call per setter: attempts, step, cap)
    order: u32,
}

const NANOS: u128 = 1_000_000_000;

fn dur_max_nanos() -> u128 {
    Duration::MAX.as_nanos()
}

/// exact delay in nanoseconds, None = exceeds any representable Duration by far
fn exact(cfg: &Cfg, n: u32) -> Option<u128> {
    let step = cfg.step.as_nanos();
    match cfg.law {
        Law::Constant => Some(step),
        Law::Linear => step.checked_mul(n as u128),
        Law::Exponential(f) => {
            let mut acc: u128 = 1;
            let f = f as u128;
            for _ in 0..(n - 1) {
                acc = match acc.checked_mul(f) {
                    Some(x) => x,
                    None => {
                        return if step == 0 { Some(0) } else { None };
                    }
                };
                if acc == 0 {
                    break;
                }
                if acc > dur_max_nanos() && step > 0 {
                    return None;
                }
            }
            step.checked_mul(acc)
        }
    }
}

fn build(cfg: &Cfg) -> BackoffStrategy {
    let mut b = match cfg.law {
        Law::Constant => BackoffStrategy::constant(),
        Law::Linear => BackoffStrategy::linear(),
        Law::Exponential(f) => BackoffStrategy::exponential(f),
    };
    // the configuration is what the *last* call of each setter says; `order` varies the order of the calls and
    // inserts earlier calls with other values (a strategy derived from a shared base and then adjusted)
    let decoys = [Duration::from_millis(3), Duration::from_secs(2), Duration::from_nanos(7), Duration::from_secs(86_400)];
    let o = cfg.order;
    if o & 1 != 0 {
        b = b.with_step(decoys[(o >> 4) as usize % 4]);
    }
    if o & 2 != 0 && cfg.cap.is_some() {
        b = b.with_max_duration(decoys[(o >> 6) as usize % 4]);
    }
    if o & 4 != 0 {
        b = b.with_max_attempts((o >> 8) % 9);
    }
    if o & 8 != 0 {
        // cap first, then step
        if let Some(c) = cfg.cap {
            b = b.with_max_duration(c);
        }
        b = b.with_max_attempts(cfg.attempts).with_step(cfg.step);
        if let Some(c) = cfg.cap {
            if o & 16 != 0 {
                b = b.with_max_duration(c);
            }
        }
    } else {
        b = b.with_max_attempts(cfg.attempts).with_step(cfg.step);
        if let Some(c) = cfg.cap {
            b = b.with_max_duration(c);
        }
    }
    b
}

/// returns Err(signature_tail, detail) on violation
fn check(cfg: &Cfg, max_iter: u32) -> Result<u32, (String, String)> {
    check_built(None, cfg, max_iter)
}

/// `built`: a strategy obtained some other way than `build(cfg)` (derived from a shared base, cloned, …) that is
/// configured as `cfg` says
fn check_built(built: Option<BackoffStrategy>, cfg: &Cfg, max_iter: u32) -> Result<u32, (String, String)> {
    let cfg2 = cfg.clone();
    let r = catch_unwind(AssertUnwindSafe(move || {
        let mut out = vec![];
        let strategy = built.unwrap_or_else(|| build(&cfg2));
        // drained the way `collect()`, `extend()`, `zip()` … drain an iterator: `size_hint()` is consulted before
        // every `next()` and once more after the end
        let mut hints: Vec<(usize, Option<usize>)> = vec![];
        let mut it = strategy.clone().into_iter();
        let mut i = 0u32;
        loop {
            hints.push(it.size_hint());
            match it.next() {
                Some(a) => out.push((a.duration, a.attempt_num, a.max_attempts)),
                None => break,
            }
            if i >= max_iter {
                break;
            }
            i += 1;
        }
        hints.push(it.size_hint());
        // a spent budget stays spent: consumers that hold the iterator by `&mut` (a retry loop that asks again, `zip`,
        // `by_ref()`) poll it after its first `None`
        let mut after_end = 0usize;
        if cfg2.attempts <= max_iter {
            for _ in 0..3 {
                if it.next().is_some() {
                    after_end += 1;
                }
            }
            let mut shared = strategy.clone().into_iter();
            let k = (cfg2.attempts / 2) as usize;
            let first = shared.by_ref().take(k).count();
            let rest = shared.by_ref().count();
            let again = shared.by_ref().count();
            if first + rest != cfg2.attempts as usize || again != 0 {
                after_end += 1000 + again;
            }
        }
        // … and through adaptors, when the hints allow it without exhausting memory
        let collected = if hints.iter().all(|h| h.0 <= 1_000_000) && cfg2.attempts <= max_iter {
            Some((strategy.clone().into_iter().collect::<Vec<_>>().len(), strategy.clone().into_iter().count(), strategy.into_iter().last().map(|a| a.attempt_num)))
        } else {
            None
        };
        (out, hints, collected, after_end)
    }));
    let (out, hints, collected, after_end) = match r {
        Ok(o) => o,
        Err(p) => {
            let msg = if let Some(s) = p.downcast_ref::<&str>() {
                s.to_string()
            } else if let Some(s) = p.downcast_ref::<String>() {
                s.clone()
            } else {
                "?".into()
            };
            let law = match cfg.law {
                Law::Constant => "constant",
                Law::Linear => "linear",
                Law::Exponential(_) => "exponential",
            };
            return Err((format!("panic/{}", law), format!("producing the schedule panicked: {}", msg)));
        }
    };
    let expect_len = cfg.attempts.min(max_iter + 1) as usize;
    if out.len() != expect_len {
        return Err(("length".into(), format!("schedule yielded {} attempts, expected {}", out.len(), expect_len)));
    }
    if after_end != 0 {
        return Err((
            "length/resumes-after-exhaustion".into(),
            if after_end >= 1000 {
                format!("a budget of {} attempts drawn in two parts through by_ref() and then asked again yielded {} further attempt(s): the schedule is not finite for a consumer that polls it after its end", cfg.attempts, after_end - 1000)
            } else {
                format!("after its first None the schedule of {} attempts yielded {} more attempt(s) in 3 further polls", cfg.attempts, after_end)
            },
        ));
    }
    if cfg.attempts <= max_iter {
        for (k, (lo, hi)) in hints.iter().enumerate() {
            let remaining = expect_len.saturating_sub(k);
            if *lo > remaining || hi.map_or(false, |h| h < remaining) {
                return Err((
                    "size-hint".into(),
                    format!("with {} of {} attempts still to come the iterator's size_hint() is ({}, {:?}): collect()/extend() size their buffers from it (a lower bound of {} elements makes them abort on allocation)", remaining, expect_len, lo, hi, lo),
                ));
            }
        }
        if let Some((n_collect, n_count, last)) = collected {
            if n_collect != expect_len || n_count != expect_len || last != if expect_len == 0 { None } else { Some(expect_len as u32) } {
                return Err(("length".into(), format!("collect() gave {} attempts, count() {}, last() is numbered {:?}; expected {}", n_collect, n_count, last, expect_len)));
            }
        }
    }
    for (i, (d, num, max)) in out.iter().enumerate() {
        let n = i as u32 + 1;
        if *num != n {
            return Err(("numbering".into(), format!("attempt #{} is numbered {}", n, num)));
        }
        if *max != cfg.attempts {
            return Err(("numbering".into(), format!("attempt #{} reports max_attempts {} instead of {}", n, max, cfg.attempts)));
        }
        if let Some(c) = cfg.cap {
            if *d > c {
                return Err(("exceeds-cap".into(), format!("attempt #{} delay {:?} exceeds the configured maximum {:?}", n, d, c)));
            }
        }
        let ex = exact(cfg, n);
        let got = d.as_nanos();
        let law = match cfg.law {
            Law::Constant => "constant",
            Law::Linear => "linear",
            Law::Exponential(_) => "exponential",
        };
        match ex {
            Some(e) if e <= dur_max_nanos() => {
                let want = match cfg.cap {
                    Some(c) => e.min(c.as_nanos()),
                    None => e,
                };
                // f64 rounding of the exponential law is tolerated (2^-40 relative, ±1ns)
                let tol = if matches!(cfg.law, Law::Exponential(_)) { (want >> 40) + 1 } else { 0 };
                let diff = if got > want { got - want } else { want - got };
                if diff > tol {
                    return Err((
                        format!("law/{}", law),
                        format!("attempt #{}: delay {:?} but the law gives {}ns ({}clamped to {:?})", n, d, want, if cfg.cap.is_some() { "" } else { "not " }, cfg.cap),
                    ));
                }
            }
            _ => {
                // exact value is not representable: must saturate
                match cfg.cap {
                    Some(c) => {
                        if *d != c {
                            return Err((
                                format!("saturation/{}", law),
                                format!("attempt #{}: exact delay overflows Duration; expected the configured maximum {:?}, got {:?}", n, c, d),
                            ));
                        }
                    }
                    None => {
                        if got < (u64::MAX as u128) * NANOS {
                            return Err((
                                format!("saturation/{}", law),
                                format!("attempt #{}: exact delay overflows Duration; expected saturation near Duration::MAX, got {:?} (wrap-around)", n, d),
                            ));
                        }
                    }
                }
            }
        }
    }
    Ok(out.len() as u32)
}

fn cfg_json(c: &Cfg) -> serde_json::Value {
    json!({"law": format!("{:?}", c.law), "step_ns": c.step.as_nanos().to_string(), "attempts": c.attempts,
           "max_duration_ns": c.cap.map(|d| d.as_nanos().to_string()), "builder_call_order": c.order})
}

pub fn run(rep: &mut StageReport, tier: &str, seed: u64, profile: &str) {
    let steps = [
        Duration::ZERO,
        Duration::from_nanos(1),
        Duration::from_millis(1),
        Duration::from_secs(1),
        Duration::from_secs(1 << 32),
        Duration::MAX / 2,
        Duration::MAX,
        Duration::new(3, 999_999_999),
    ];
    let factors = [0u64, 1, 2, 3, 10, 1 << 16, 1 << 32, u64::MAX];
    let attempts = [0u32, 1, 2, 21, 64, 65, 66, 1000, 5000, u32::MAX - 1, u32::MAX];
    let caps = [None, Some(Duration::ZERO), Some(Duration::from_millis(1)), Some(Duration::from_secs(30)), Some(Duration::MAX)];
    let mut cfgs: Vec<Cfg> = vec![];
    for s in steps {
        for a in attempts {
            for c in caps {
                cfgs.push(Cfg { law: Law::Constant, step: s, attempts: a, cap: c, order: 0 });
                cfgs.push(Cfg { law: Law::Linear, step: s, attempts: a, cap: c, order: 0 });
                for f in factors {
                    cfgs.push(Cfg { law: Law::Exponential(f), step: s, attempts: a, cap: c, order: 0 });
                }
            }
        }
    }
    // the same grid again with setter calls in other orders / preceded by calls with other values
    let base: Vec<Cfg> = cfgs.iter().filter(|c| c.attempts <= 66 && c.attempts > 0).cloned().collect();
    for (i, c) in base.iter().enumerate() {
        let mut c2 = c.clone();
        c2.order = [0b01011u32, 0b11010, 0b00111 | (1 << 6), 0b11111 | (3 << 6) | (2 << 4)][i % 4];
        cfgs.push(c2);
    }
    // steps with a sub-second part whose multiple crosses Duration::MAX only through the carried seconds
    for m in [2u64, 3, 4, 5, 7, 10, 16, 64, 100, 1000, 65_536, u32::MAX as u64] {
        for nanos in [1u32, 400_000_000, 500_000_000, 999_999_999] {
            for dsec in [0u64, 1] {
                let step = Duration::new((u64::MAX / m).saturating_sub(dsec), nanos);
                let attempts = (m.min(70) as u32).max(2) + 1;
                for cap in [None, Some(Duration::from_secs(30)), Some(Duration::MAX)] {
                    cfgs.push(Cfg { law: Law::Linear, step, attempts, cap, order: 0 });
                    if m <= 65_536 {
                        cfgs.push(Cfg { law: Law::Exponential(m), step, attempts: 4, cap, order: 0 });
                    }
                }
            }
        }
    }
    let grid = cfgs.len();
    let n_random = if tier == "thorough" { 3_000_000 } else { 60_000 };
    let mut rng = Rng::new(seed ^ 0xC13);
    for _ in 0..n_random {
        let step = match rng.below(6) {
            0 => Duration::from_nanos(rng.below(1000)),
            1 => Duration::from_millis(rng.below(100_000)),
            2 => Duration::from_secs(rng.next_u64() >> rng.below(64)),
            3 => Duration::new(rng.next_u64() >> rng.below(64), rng.below(1_000_000_000) as u32),
            4 => Duration::from_secs(rng.below(100)),
            _ => Duration::from_nanos(rng.next_u64() >> rng.below(64)),
        };
        let law = match rng.below(3) {
            0 => Law::Constant,
            1 => Law::Linear,
            _ => Law::Exponential(match rng.below(4) {
                0 => rng.below(5),
                1 => rng.below(1000),
                2 => rng.next_u64() >> rng.below(64),
                _ => 2,
            }),
        };
        let kinds = if rng.pct(2) { 5 } else { 4 };
        let attempts = match rng.below(kinds) {
            4 => u32::MAX - rng.below(3) as u32,
            0 => rng.below(8) as u32,
            1 => rng.below(130) as u32,
            2 => rng.below(3000) as u32,
            _ => 60 + rng.below(12) as u32,
        };
        let cap = match rng.below(3) {
            0 => None,
            1 => Some(Duration::from_millis(rng.below(1_000_000))),
            _ => Some(Duration::new(rng.next_u64() >> rng.below(64), 0)),
        };
        let order = if rng.pct(50) { 0 } else { rng.below(1 << 12) as u32 };
        cfgs.push(Cfg { law, step, attempts, cap, order });
    }
    let mut attempts_checked = 0u64;
    for (i, c) in cfgs.iter().enumerate() {
        rep.evaluations += 1;
        let mut h = crate::common::Hasher64::new();
        h.s(&format!("{:?}", c));
        match check(c, 6000) {
            Ok(n) => {
                attempts_checked += n as u64;
                if c.attempts > 0 {
                    rep.distinct.insert(h.0);
                }
                if i % 9973 == 7 {
                    rep.sample(json!({"config": cfg_json(c), "verdict": "schedule matches the law", "attempts_checked": n}));
                }
            }
            Err((sig, detail)) => {
                let signature = format!("C13/backoff/{}/{}", profile, sig);
                let already = rep.violations.iter().filter(|v| v.signature == signature).count();
                let replay = if already < 2 {
                    write_replay("C13", &format!("{}-{}", profile, sig), i as u64, json!({"property": "C13", "profile": profile, "config": cfg_json(c), "detail": detail}))
                } else {
                    String::new()
                };
                rep.violation(Violation { signature, detail: format!("{} — config {}", detail, cfg_json(c)), replay });
            }
        }
    }
    // strategies derived from one another: a base is configured, clones of it are iterated (fully or partly), and
    // further strategies are derived from it with other caps / steps / attempt counts — each must follow *its* settings
    let n_seq = if tier == "thorough" { 400_000 } else { 12_000 };
    let mut derived_checked = 0u64;
    for q in 0..n_seq {
        let law = match rng.below(3) {
            0 => Law::Constant,
            1 => Law::Linear,
            _ => Law::Exponential(*rng.pick(&[0u64, 1, 2, 2, 3, 10])),
        };
        let mut cur = Cfg { law, step: Duration::from_millis(*rng.pick(&[0u64, 1, 250, 1000, 2000])), attempts: rng.range(1, 12) as u32, cap: if rng.pct(70) { Some(Duration::from_millis(*rng.pick(&[1u64, 1000, 4000, 4000, 60_000]))) } else { None }, order: 0 };
        let mut b = build(&cur);
        let mut trail = vec![format!("base {:?}", cfg_json(&cur).to_string())];
        let mut bad: Option<(String, String)> = None;
        for _ in 0..rng.range(2, 6) {
            match rng.below(6) {
                0 | 1 => {
                    // a clone is iterated (fully, or only the first k attempts)
                    if rng.pct(50) {
                        trail.push("clone iterated fully".into());
                        derived_checked += 1;
                        if let Err(e) = check_built(Some(b.clone()), &cur, 6000) {
                            bad = Some(e);
                            break;
                        }
                    } else {
                        let k = rng.below(4) as usize;
                        trail.push(format!("clone iterated for {} attempt(s)", k));
                        let c = b.clone();
                        let _ = catch_unwind(AssertUnwindSafe(move || c.into_iter().take(k).count()));
                    }
                }
                2 => {
                    let c = Duration::from_millis(*rng.pick(&[1u64, 500, 4000, 30_000, 60_000, 3_600_000]));
                    trail.push(format!("with_max_duration({:?})", c));
                    b = b.with_max_duration(c);
                    cur.cap = Some(c);
                }
                3 => {
                    let st = Duration::from_millis(*rng.pick(&[0u64, 1, 100, 1000, 5000]));
                    trail.push(format!("with_step({:?})", st));
                    b = b.with_step(st);
                    cur.step = st;
                }
                4 => {
                    let a = rng.range(1, 14) as u32;
                    trail.push(format!("with_max_attempts({})", a));
                    b = b.with_max_attempts(a);
                    cur.attempts = a;
                }
                _ => {
                    trail.push("clone taken and dropped".into());
                    let _ = b.clone();
                }
            }
        }
        if bad.is_none() {
            derived_checked += 1;
            trail.push("final strategy iterated".into());
            if let Err(e) = check_built(Some(b), &cur, 6000) {
                bad = Some(e);
            }
        }
        rep.evaluations += 1;
        match bad {
            None => {
                let mut h = crate::common::Hasher64::new();
                h.s(&format!("{:?}", trail));
                rep.distinct.insert(h.0);
                if q % 4001 == 5 {
                    rep.sample(json!({"derivation": trail, "verdict": "every iterated strategy follows its own settings"}));
                }
            }
            Some((sig, detail)) => {
                let signature = format!("C13/backoff/{}/{}/derived-strategy", profile, sig);
                let already = rep.violations.iter().filter(|v| v.signature == signature).count();
                let replay = if already < 2 {
                    write_replay("C13", &format!("{}-{}-derived", profile, sig), q as u64, json!({"property": "C13", "profile": profile, "derivation": trail, "settings_now": cfg_json(&cur), "detail": detail}))
                } else {
                    String::new()
                };
                rep.violation(Violation { signature, detail: format!("{} — derivation {:?}", detail, trail), replay });
            }
        }
    }
    rep.count("derivation_sequences", n_seq as u64);
    rep.count("derived_strategies_compared", derived_checked);
    rep.count("exhaustive_grid_configs", grid as u64);
    rep.count("random_configs", n_random as u64);
    rep.count("attempts_compared", attempts_checked);
    rep.rule = format!("[{} profile] every configuration of the exhaustive grid (steps × factors × attempts × caps) plus random configurations; each yielded attempt is compared with the law computed in u128 arithmetic; non-trivial = at least one attempt configured; distinct = distinct configuration", profile);
    rep.extra.insert("build_profile".into(), json!(profile));
    rep.extra.insert("overflow_checks".into(), json!(cfg!(debug_assertions)));
}

//! C14 — payload transforms are lossless: codecs and every compression algorithm/level.

use crate::common::{hex_trunc, write_replay, Rng, StageReport, Violation};
use brotli::enc::backward_references::BrotliEncoderMode;
use bytes::{Bytes, BytesMut};
use selium_protocol::utils::{decode_message_batch, encode_message_batch};
use selium_std::codecs::{BincodeCodec, BytesCodec, StringCodec};
use selium_std::compression::brotli::{BrotliComp, BrotliDecomp};
use selium_std::compression::deflate::{DeflateComp, DeflateDecomp};
use selium_std::compression::lz4::{Lz4Comp, Lz4Decomp};
use selium_std::compression::zstd::{ZstdComp, ZstdDecomp};
use selium_std::traits::codec::{MessageDecoder, MessageEncoder};
use selium_std::traits::compression::{Compress, CompressionLevel, Decompress};
use serde::{Deserialize, Serialize};
use serde_json::json;
use std::collections::HashMap;
use std::panic::{catch_unwind, AssertUnwindSafe};
use std::sync::atomic::{AtomicU64, Ordering};
use std::sync::{Arc, Mutex};

#[derive(Debug, Clone, PartialEq, Serialize, Deserialize)]
pub struct Sample {
    pub name: String,
    pub n: u64,
    pub tags: Vec<String>,
    pub map: HashMap<String, i32>,
    pub opt: Option<Box<Sample>>,
    pub raw: Vec<u8>,
    pub f: f64,
    pub e: Shape,
}

#[derive(Debug, Clone, PartialEq, Serialize, Deserialize)]
pub enum Shape {
    Unit,
    Pair(i64, String),
    Rec { a: u8, b: Vec<u16> },
}

pub type Pair = (Box<dyn Compress + Send + Sync>, Box<dyn Decompress + Send + Sync>, String);

/// every supported algorithm / mode / level
pub fn all_pairs(quick_subset: bool) -> Vec<Pair> {
    let mut v: Vec<Pair> = vec![];
    for lvl in 0..=9u32 {
        v.push((Box::new(DeflateComp::gzip().level(lvl)), Box::new(DeflateDecomp::gzip()), format!("gzip/{}", lvl)));
        v.push((Box::new(DeflateComp::zlib().level(lvl)), Box::new(DeflateDecomp::zlib()), format!("zlib/{}", lvl)));
    }
    v.push((Box::new(DeflateComp::gzip().fastest()), Box::new(DeflateDecomp::gzip()), "gzip/fastest".into()));
    v.push((Box::new(DeflateComp::gzip().balanced()), Box::new(DeflateDecomp::gzip()), "gzip/balanced".into()));
    v.push((Box::new(DeflateComp::gzip().highest_ratio()), Box::new(DeflateDecomp::gzip()), "gzip/highest".into()));
    v.push((Box::new(DeflateComp::zlib().fastest()), Box::new(DeflateDecomp::zlib()), "zlib/fastest".into()));
    v.push((Box::new(DeflateComp::zlib().balanced()), Box::new(DeflateDecomp::zlib()), "zlib/balanced".into()));
    v.push((Box::new(DeflateComp::zlib().highest_ratio()), Box::new(DeflateDecomp::zlib()), "zlib/highest".into()));
    v.push((Box::new(DeflateComp::default()), Box::new(DeflateDecomp::default()), "deflate/default".into()));
    let zmax = if quick_subset { 19 } else { 22 };
    for lvl in 0..=zmax {
        v.push((Box::new(ZstdComp::new().level(lvl)), Box::new(ZstdDecomp), format!("zstd/{}", lvl)));
    }
    v.push((Box::new(ZstdComp::new().fastest()), Box::new(ZstdDecomp), "zstd/fastest".into()));
    v.push((Box::new(ZstdComp::new().balanced()), Box::new(ZstdDecomp), "zstd/balanced".into()));
    v.push((Box::new(ZstdComp::new().highest_ratio()), Box::new(ZstdDecomp), "zstd/highest".into()));
    v.push((Box::new(Lz4Comp), Box::new(Lz4Decomp), "lz4".into()));
    for (mode, name) in [(BrotliEncoderMode::BROTLI_MODE_GENERIC, "generic"), (BrotliEncoderMode::BROTLI_MODE_TEXT, "text"), (BrotliEncoderMode::BROTLI_MODE_FONT, "font")] {
        for lvl in 0..=11u32 {
            v.push((Box::new(BrotliComp::new(mode.clone()).level(lvl)), Box::new(BrotliDecomp), format!("brotli-{}/{}", name, lvl)));
        }
        v.push((Box::new(BrotliComp::new(mode.clone()).fastest()), Box::new(BrotliDecomp), format!("brotli-{}/fastest", name)));
        v.push((Box::new(BrotliComp::new(mode.clone()).balanced()), Box::new(BrotliDecomp), format!("brotli-{}/balanced", name)));
        v.push((Box::new(BrotliComp::new(mode.clone()).highest_ratio()), Box::new(BrotliDecomp), format!("brotli-{}/highest", name)));
    }
    v.push((Box::new(BrotliComp::default()), Box::new(BrotliDecomp), "brotli/default".into()));
    v
}

pub fn payload_class(rng: &mut Rng, class: u32, size: usize) -> Vec<u8> {
    match class {
        0 => vec![],
        1 => vec![rng.below(256) as u8],
        2 => rng.bytes(size),                                // incompressible
        3 => vec![rng.below(256) as u8; size],               // run-length
        4 => {
            // text-like
            let words = ["selium", "topic", "message", "the", "quick", "brown", "fox", "{\"k\":", "12345", "\n", " ", "é"];
            let mut v = vec![];
            while v.len() < size {
                v.extend_from_slice(rng.pick(&words).as_bytes());
                v.push(b' ');
            }
            v.truncate(size);
            v
        }
        5 => {
            // mixed: runs + noise + repeats of an earlier window
            let mut v: Vec<u8> = vec![];
            while v.len() < size {
                match rng.below(3) {
                    0 => v.extend({ let n = rng.below(64) as usize + 1; rng.bytes(n) }),
                    1 => v.extend({ let b = rng.below(256) as u8; let n = rng.below(300) as usize + 1; std::iter::repeat(b).take(n) }),
                    _ => {
                        if v.len() > 8 {
                            let start = rng.usize(v.len() - 4);
                            let len = rng.usize((v.len() - start).min(200)) + 1;
                            let w = v[start..start + len].to_vec();
                            v.extend(w);
                        } else {
                            v.push(0)
                        }
                    }
                }
            }
            v.truncate(size);
            v
        }
        _ => {
            // bytes that look like compressed-stream headers
            let mut v = vec![0x1f, 0x8b, 0x08, 0x00, 0x28, 0xb5, 0x2f, 0xfd, 0x04, 0x22, 0x4d, 0x18, 0x78, 0x9c];
            v.extend(rng.bytes(size.saturating_sub(14)));
            v.truncate(size.max(1));
            v
        }
    }
}

fn rand_sample(rng: &mut Rng, depth: u32) -> Sample {
    let s = |rng: &mut Rng| -> String {
        let n = rng.below(12) as usize;
        (0..n).map(|_| *rng.pick(&['a', 'Z', '0', ' ', 'é', '中', '\0', '\n', '💥', '\u{feff}', '\u{fffe}', '\r', '\u{301}'])).collect()
    };
    let mut map = HashMap::new();
    for _ in 0..rng.below(4) {
        map.insert(s(rng), rng.next_u64() as i32);
    }
    Sample {
        name: s(rng),
        n: rng.next_u64() >> rng.below(64),
        tags: (0..rng.below(4)).map(|_| s(rng)).collect(),
        map,
        opt: if depth < 3 && rng.pct(40) { Some(Box::new(rand_sample(rng, depth + 1))) } else { None },
        raw: rng.rbytes(40),
        f: f64::from_bits(rng.next_u64() & !(0x7ff << 52) | ((rng.below(2046) + 1) << 52)), // finite, never NaN
        e: match rng.below(3) {
            0 => Shape::Unit,
            1 => Shape::Pair(rng.next_u64() as i64, s(rng)),
            _ => Shape::Rec { a: rng.below(256) as u8, b: (0..rng.below(5)).map(|_| rng.below(65536) as u16).collect() },
        },
    }
}

struct Viol(String, String);

fn is_slow(name: &str) -> bool {
    name.starts_with("zstd/2") || (name.starts_with("brotli") && (name.ends_with("/10") || name.ends_with("/11") || name.ends_with("highest")))
}

fn roundtrip(pair: &Pair, data: &[u8]) -> Result<usize, Viol> {
    let input = Bytes::copy_from_slice(data);
    let c = pair.0.compress(input).map_err(|e| Viol(format!("compress-error/{}", pair.2.split('/').next().unwrap()), format!("{}: compress failed on {} bytes: {}", pair.2, data.len(), e)))?;
    let clen = c.len();
    let d = pair.1.decompress(c).map_err(|e| Viol(format!("decompress-error/{}", pair.2.split('/').next().unwrap()), format!("{}: decompressing its own compression of {} bytes failed: {}", pair.2, data.len(), e)))?;
    if &d[..] != data {
        return Err(Viol(
            format!("lossy/{}", pair.2.split('/').next().unwrap()),
            format!("{}: decompress(compress(x)) != x: input {} bytes ({}), output {} bytes ({})", pair.2, data.len(), hex_trunc(data, 24), d.len(), hex_trunc(&d, 24)),
        ));
    }
    Ok(clen)
}

fn report(rep: &mut StageReport, v: Viol, id: u64, body: serde_json::Value) {
    let signature = format!("C14/transform/{}", v.0);
    let already = rep.violations.iter().filter(|x| x.signature == signature).count();
    let replay = if already < 2 { write_replay("C14", &v.0, id, json!({"property": "C14", "detail": v.1, "case": body})) } else { String::new() };
    rep.violation(Violation { signature, detail: v.1, replay });
}

/// the malformed UTF-8 classes
fn bad_utf8() -> Vec<Vec<u8>> {
    vec![
        vec![0x80],                         // lone continuation
        vec![0xbf],
        vec![0xc0, 0x80],                   // overlong NUL
        vec![0xc1, 0xbf],                   // overlong
        vec![0xe0, 0x80, 0x80],             // overlong 3-byte
        vec![0xf0, 0x80, 0x80, 0x80],       // overlong 4-byte
        vec![0xc3],                         // truncated 2-byte
        vec![0xe2, 0x82],                   // truncated 3-byte
        vec![0xf0, 0x9f, 0x92],             // truncated 4-byte
        vec![0xed, 0xa0, 0x80],             // surrogate D800
        vec![0xed, 0xbf, 0xbf],             // surrogate DFFF
        vec![0xf4, 0x90, 0x80, 0x80],       // > U+10FFFF
        vec![0xf5, 0x80, 0x80, 0x80],       // invalid lead
        vec![0xff],
        vec![0xfe],
        vec![b'a', 0xc3, b'b'],             // bad continuation
        vec![b'o', b'k', 0xe2, 0x28, 0xa1],
        vec![0xf8, 0x88, 0x80, 0x80, 0x80], // 5-byte form
    ]
}

pub fn run(rep: &mut StageReport, tier: &str, seed: u64) {
    let thorough = tier == "thorough";
    let mut rng = Rng::new(seed ^ 0xC14);
    let pairs = Arc::new(all_pairs(false));
    rep.count("algorithm_level_pairs", pairs.len() as u64);

    // ---- compression grid, parallel over (pair, payload) ---------------------------------------
    let sizes: Vec<usize> = if thorough {
        vec![0, 1, 2, 15, 64, 1000, 4095, 4096, 4097, 65_536, 300_000, 1_048_576 - 64, 1_048_576]
    } else {
        vec![0, 1, 15, 1000, 4096, 4097, 20_000]
    };
    let mut payloads: Vec<(String, Arc<Vec<u8>>)> = vec![];
    for class in 0..7u32 {
        for &sz in &sizes {
            if (class == 0 && sz != 0) || (class == 1 && sz != 1) || (class > 1 && sz < 2) {
                continue;
            }
            // the slowest levels get fewer of the very large payloads (see `skip` below)
            payloads.push((format!("class{}-{}B", class, sz), Arc::new(payload_class(&mut rng, class, sz))));
        }
    }
    // payloads that are themselves compressed streams (an archive, an already compressed blob, a message that was
    // compressed twice): every algorithm's own output, fed to every algorithm again
    {
        let sources: Vec<(&str, Vec<u8>)> = vec![
            ("empty", vec![]),
            ("text-4096B", payload_class(&mut rng, 4, 4096)),
            ("random-64B", payload_class(&mut rng, 2, 64)),
            ("run-10000B", payload_class(&mut rng, 3, 10_000)),
        ];
        let mut seen_alg: Vec<String> = vec![];
        for p in pairs.iter() {
            let family = p.2.split('/').next().unwrap_or("").to_string();
            if seen_alg.contains(&family) {
                continue;
            }
            seen_alg.push(family.clone());
            for (sname, src) in &sources {
                if let Ok(c) = p.0.compress(Bytes::from(src.clone())) {
                    payloads.push((format!("precompressed({})-of-{}", p.2, sname), Arc::new(c.to_vec())));
                }
            }
        }
    }
    rep.count("payloads", payloads.len() as u64);
    // ---- one long-lived instance, consecutive near-identical payloads -------------------------------------------
    // (fixed-size records with one changing field: same length, same head and tail, a difference somewhere in between —
    // whatever an instance remembers from the previous call must not show in the next one)
    {
        let own = all_pairs(false);
        let mut n_seq = 0u64;
        for pair in own.iter() {
            for &sz in if thorough { &[100usize, 4096, 4097, 8192, 40_000, 300_000][..] } else { &[100usize, 4097, 8192, 40_000][..] } {
                if is_slow(&pair.2) && sz > 8192 {
                    continue;
                }
                let base = payload_class(&mut rng, if sz % 2 == 0 { 4 } else { 2 }, sz);
                let flip = |pos: usize| {
                    let mut v = base.clone();
                    v[pos] ^= 0x55;
                    v
                };
                let seq: Vec<Vec<u8>> = vec![base.clone(), flip(sz / 2), base.clone(), base.clone(), flip(0), flip(sz - 1), flip(sz / 3), flip(sz / 2 + 1), flip(sz.saturating_sub(2049).min(sz - 1)), flip(2048.min(sz - 1)), payload_class(&mut rng, 2, sz)];
                for (k, data) in seq.iter().enumerate() {
                    n_seq += 1;
                    rep.evaluations += 1;
                    match roundtrip(pair, data) {
                        Ok(_) => {
                            rep.distinct.insert(crate::common::mix(0x5E9, n_seq));
                        }
                        Err(Viol(sig, detail)) => {
                            report(rep, Viol(format!("{}/reused-instance", sig), format!("{} — payload #{} of a sequence of same-length payloads given to one compressor instance (each differs from the first in at most one byte)", detail, k)), n_seq, json!({"pair": pair.2, "size": sz, "index_in_sequence": k}));
                            break;
                        }
                    }
                }
            }
        }
        rep.count("reused_instance_roundtrips", n_seq);
    }
    let jobs: Vec<(usize, usize)> = {
        let mut j = vec![];
        for pi in 0..pairs.len() {
            for di in 0..payloads.len() {
                let slow = pairs[pi].2.starts_with("brotli") && (pairs[pi].2.ends_with("/10") || pairs[pi].2.ends_with("/11") || pairs[pi].2.ends_with("highest"))
                    || pairs[pi].2.starts_with("zstd/2");
                if slow && payloads[di].1.len() > 70_000 && !(thorough && di % 3 == 0) {
                    continue;
                }
                j.push((pi, di));
            }
        }
        j
    };
    let next = Arc::new(AtomicU64::new(0));
    let results: Arc<Mutex<Vec<(usize, usize, Result<usize, (String, String)>)>>> = Arc::new(Mutex::new(vec![]));
    let payloads = Arc::new(payloads);
    let jobs = Arc::new(jobs);
    let mut hs = vec![];
    for _ in 0..16 {
        let (next, results, pairs, payloads, jobs) = (next.clone(), results.clone(), pairs.clone(), payloads.clone(), jobs.clone());
        hs.push(std::thread::spawn(move || {
            let mut local = vec![];
            loop {
                let i = next.fetch_add(1, Ordering::SeqCst) as usize;
                if i >= jobs.len() {
                    break;
                }
                let (pi, di) = jobs[i];
                let r = catch_unwind(AssertUnwindSafe(|| roundtrip(&pairs[pi], &payloads[di].1)));
                let r = match r {
                    Ok(Ok(n)) => Ok(n),
                    Ok(Err(v)) => Err((v.0, v.1)),
                    Err(_) => Err((format!("panic/{}", pairs[pi].2.split('/').next().unwrap()), format!("{} panicked on payload {}", pairs[pi].2, payloads[di].0))),
                };
                local.push((pi, di, r));
            }
            results.lock().unwrap().extend(local);
        }));
    }
    for h in hs {
        let _ = h.join();
    }
    let results = std::mem::take(&mut *results.lock().unwrap());
    for (k, (pi, di, r)) in results.into_iter().enumerate() {
        rep.evaluations += 1;
        match r {
            Ok(clen) => {
                if !payloads[di].1.is_empty() {
                    rep.distinct.insert(crate::common::mix(pi as u64, crate::common::fnv(&payloads[di].1)));
                }
                if k % 1301 == 17 {
                    rep.sample(json!({"check": "compress-roundtrip", "algorithm": pairs[pi].2, "payload": payloads[di].0, "compressed_len": clen}));
                }
            }
            Err((s, d)) => report(rep, Viol(s, d), k as u64, json!({"algorithm": pairs[pi].2, "payload": payloads[di].0, "payload_hex": hex_trunc(&payloads[di].1, 64)})),
        }
    }
    rep.count("compression_roundtrips", jobs.len() as u64);

    // ---- random small payloads across random pairs (parallel) ---------------------------------------
    let n_rand: u64 = if thorough { 300_000 } else { 16_000 };
    {
        let pairs = pairs.clone();
        crate::common::par_cases(rep, 16, n_rand, seed ^ 0x14A, move |i, rng, rep| {
            rep.evaluations += 1;
            let mut pi = rng.usize(pairs.len());
            // the very slow levels (zstd ≥ 20 set up a 128 MiB window) are sampled at 1/16
            if is_slow(&pairs[pi].2) && rng.below(16) != 0 {
                pi = rng.usize(20);
            }
            let class = rng.range(2, 6) as u32;
            let sz = rng.below(600) as usize + 2;
            let data = payload_class(rng, class, sz);
            match catch_unwind(AssertUnwindSafe(|| roundtrip(&pairs[pi], &data))) {
                Ok(Ok(_)) => {
                    rep.distinct.insert(crate::common::mix(pi as u64 + 7777, crate::common::fnv(&data)));
                }
                Ok(Err(v)) => report(rep, v, i, json!({"algorithm": pairs[pi].2, "payload_hex": hex_trunc(&data, 600)})),
                Err(_) => report(rep, Viol("panic/random".into(), format!("{} panicked", pairs[pi].2)), i, json!({"algorithm": pairs[pi].2, "payload_hex": hex_trunc(&data, 600)})),
            }
        });
    }
    rep.count("random_small_roundtrips", n_rand);

    // ---- codecs (parallel) ------------------------------------------------------------------------------
    let n_codec: u64 = if thorough { 600_000 } else { 40_000 };
    {
        let pairs = pairs.clone();
        crate::common::par_cases(rep, 16, n_codec, seed ^ 0x14B, move |i, rng, rep| {
            rep.evaluations += 1;
            let r: Result<u64, Viol> = (|| {
                let mut h = crate::common::Hasher64::new();
                match i % 4 {
                    0 => {
                        let v = rand_sample(rng, 0);
                        let c = BincodeCodec::<Sample>::default();
                        let e = c.encode(v.clone()).map_err(|e| Viol("codec/bincode-encode".into(), e.to_string()))?;
                        h.b(&e);
                        let mut b = BytesMut::from(&e[..]);
                        let d = c.decode(&mut b).map_err(|e| Viol("codec/bincode-decode".into(), format!("decode(encode(v)) failed: {}", e)))?;
                        if d != v {
                            return Err(Viol("codec/bincode-mismatch".into(), format!("bincode codec: decoded {:?} from encoding of {:?}", d, v)));
                        }
                    }
                    1 => {
                        let n = rng.below(40) as usize;
                        let mut s: String = (0..n).map(|_| char::from_u32(rng.below(0x11_0000) as u32).unwrap_or('x')).collect();
                        // characters that text-handling code likes to treat specially, at the start / end / inside
                        const SPECIAL: &[char] = &['\u{feff}', '\u{fffe}', '\u{0}', ' ', '\t', '\n', '\r', '\u{a0}', '\u{2028}', '\u{200b}', '\u{301}', '\u{d7ff}', '\u{e000}', '\u{fffd}', '\u{ffff}', '\u{10000}', '\u{10ffff}', '\u{7f}', '\u{80}', '\u{7ff}', '\u{800}', '"', '\\', '\u{1b}'];
                        match rng.below(4) {
                            0 => s.insert(0, *rng.pick(SPECIAL)),
                            1 => s.push(*rng.pick(SPECIAL)),
                            2 => {
                                s.insert(0, *rng.pick(SPECIAL));
                                s.push(*rng.pick(SPECIAL));
                            }
                            _ => {}
                        }
                        h.s(&s);
                        let c = StringCodec;
                        let e = c.encode(s.clone()).map_err(|e| Viol("codec/string-encode".into(), e.to_string()))?;
                        let mut b = BytesMut::from(&e[..]);
                        let d = c.decode(&mut b).map_err(|e| Viol("codec/string-decode".into(), format!("decode(encode({:?})) failed: {}", s, e)))?;
                        if d != s {
                            return Err(Viol("codec/string-mismatch".into(), format!("string codec: {:?} became {:?}", s, d)));
                        }
                    }
                    2 => {
                        let v = rng.rbytes(200);
                        h.b(&v);
                        h.u(2);
                        let c = BytesCodec;
                        let e = c.encode(v.clone()).map_err(|e| Viol("codec/bytes-encode".into(), e.to_string()))?;
                        let mut b = BytesMut::from(&e[..]);
                        let d = c.decode(&mut b).map_err(|e| Viol("codec/bytes-decode".into(), e.to_string()))?;
                        if d != v {
                            return Err(Viol("codec/bytes-mismatch".into(), "bytes codec altered the value".into()));
                        }
                    }
                    _ => {
                        // the wire composition: encode -> batch -> compress -> decompress -> unbatch -> decode
                        // (now and then a batch of thousands of values)
                        let k = if rng.below(400) == 0 { *rng.pick(&[4096usize, 4097, 5000, 9000]) } else { rng.below(6) as usize };
                        let vals: Vec<Sample> = (0..k).map(|_| rand_sample(rng, 1)).collect();
                        let c = BincodeCodec::<Sample>::default();
                        let encs: Vec<Bytes> = vals.iter().map(|v| c.encode(v.clone()).unwrap()).collect();
                        let batch = encode_message_batch(encs);
                        h.b(&batch);
                        let mut pi = rng.usize(pairs.len());
                        if is_slow(&pairs[pi].2) && rng.below(16) != 0 {
                            pi = rng.usize(20);
                        }
                        h.u(pi as u64);
                        let comp = pairs[pi].0.compress(batch).map_err(|e| Viol("composition/compress".into(), e.to_string()))?;
                        let dec = pairs[pi].1.decompress(comp).map_err(|e| Viol("composition/decompress".into(), format!("{}: {}", pairs[pi].2, e)))?;
                        let parts = decode_message_batch(dec).map_err(|e| Viol("composition/unbatch".into(), e.to_string()))?;
                        let back: Vec<Sample> = parts
                            .into_iter()
                            .map(|b| c.decode(&mut BytesMut::from(&b[..])))
                            .collect::<Result<Vec<_>, _>>()
                            .map_err(|e| Viol("composition/decode".into(), e.to_string()))?;
                        if back != vals {
                            return Err(Viol("composition/mismatch".into(), format!("wire composition with {} lost or reordered values: sent {} got {}", pairs[pi].2, vals.len(), back.len())));
                        }
                    }
                }
                Ok(h.0)
            })();
            match r {
                Ok(hh) => {
                    rep.distinct.insert(hh);
                }
                Err(v) => report(rep, v, i, json!({"codec_case": i % 4})),
            }
        });
    }
    rep.count("codec_and_composition_cases", n_codec);

    // ---- a long-lived decompressor instance (what a subscriber holds for the life of its stream) must not
    // carry anything over from a frame it rejected or mangled into the next, intact frame
    {
        let n_reuse: u64 = if thorough { 40_000 } else { 4_000 };
        let pairs = pairs.clone();
        crate::common::par_cases(rep, 16, n_reuse, seed ^ 0x14C, move |i, rng, rep| {
            rep.evaluations += 1;
            let mut pi = rng.usize(pairs.len());
            if is_slow(&pairs[pi].2) {
                pi = rng.usize(20);
            }
            let pair = &pairs[pi];
            let c1 = rng.range(2, 6) as u32;
            let n1 = rng.below(9000) as usize + 40;
            let x1 = payload_class(rng, c1, n1);
            let c2 = rng.range(2, 6) as u32;
            let n2 = rng.below(3000) as usize + 1;
            let x2 = payload_class(rng, c2, n2);
            let mut bad = match pair.0.compress(Bytes::from(x1.clone())) {
                Ok(b) => b.to_vec(),
                Err(_) => return,
            };
            // damage the first frame: truncate, flip a late byte (checksum / trailer), or append garbage
            let how = match rng.below(4) {
                0 => {
                    let cut = rng.usize(bad.len().max(1));
                    bad.truncate(cut);
                    "truncated"
                }
                1 => {
                    let l = bad.len();
                    if l > 0 {
                        let p = l - 1 - rng.usize(l.min(8));
                        bad[p] ^= 0x5a;
                    }
                    "trailer byte flipped"
                }
                2 => {
                    if !bad.is_empty() {
                        let p = rng.usize(bad.len());
                        bad[p] ^= 1 << rng.below(8);
                    }
                    "bit flipped"
                }
                _ => {
                    bad.extend(rng.rbytes(20));
                    "garbage appended"
                }
            };
            let good = match pair.0.compress(Bytes::from(x2.clone())) {
                Ok(b) => b,
                Err(_) => return,
            };
            let r = catch_unwind(AssertUnwindSafe(|| {
                let first = pair.1.decompress(Bytes::from(bad.clone()));
                let second = pair.1.decompress(good.clone());
                (first.is_ok(), second)
            }));
            match r {
                Err(_) => report(rep, Viol(format!("panic/reuse/{}", pair.2.split('/').next().unwrap()), format!("{} panicked on a damaged frame ({})", pair.2, how)), i, json!({"algorithm": pair.2, "damage": how})),
                Ok((_, Ok(out))) if out[..] == x2[..] => {
                    rep.distinct.insert(crate::common::mix(pi as u64 ^ 0x7e05e, crate::common::fnv(&bad) ^ crate::common::fnv(&x2)));
                }
                Ok((first_ok, Ok(out))) => report(
                    rep,
                    Viol(format!("stale-state-after-bad-frame/{}", pair.2.split('/').next().unwrap()), format!("{}: after a {} frame ({}), the same decompressor instance returned {} bytes for an intact frame of {} bytes ({} …)", pair.2, how, if first_ok { "returned Ok" } else { "rejected" }, out.len(), x2.len(), hex_trunc(&out, 16))),
                    i,
                    json!({"algorithm": pair.2, "damage": how}),
                ),
                Ok((_, Err(e))) => report(rep, Viol(format!("intact-frame-rejected-after-bad-frame/{}", pair.2.split('/').next().unwrap()), format!("{}: after a {} frame the same instance rejected an intact frame: {}", pair.2, how, e)), i, json!({"algorithm": pair.2, "damage": how})),
            }
        });
        rep.count("instance_reuse_after_damaged_frame_cases", n_reuse);
    }

    // ---- invalid UTF-8 must be an error, never a value ------------------------------------------------
    let mut bad = bad_utf8();
    let base = bad.clone();
    for b in &base {
        // embedded in valid text, at the start / middle / end
        let mut v = b"valid ".to_vec();
        v.extend_from_slice(b);
        bad.push(v.clone());
        v.extend_from_slice(" tail é".as_bytes());
        bad.push(v);
        let mut w = b.clone();
        w.extend_from_slice(b"xyz");
        bad.push(w);
    }
    for (i, b) in bad.iter().enumerate() {
        rep.evaluations += 1;
        if std::str::from_utf8(b).is_ok() {
            continue; // (a few embeddings can become valid; those are not test cases)
        }
        let mut buf = BytesMut::from(&b[..]);
        match catch_unwind(AssertUnwindSafe(|| StringCodec.decode(&mut buf))) {
            Ok(Err(_)) => {
                rep.distinct.insert(crate::common::fnv(b) ^ 0x07f8);
            }
            Ok(Ok(s)) => report(rep, Viol("codec/invalid-utf8-accepted".into(), format!("string codec turned invalid UTF-8 {} into the value {:?}", hex_trunc(b, 40), s)), i as u64, json!({"bytes": hex_trunc(b, 80)})),
            Err(_) => report(rep, Viol("panic/string-decode".into(), format!("string codec panicked on {}", hex_trunc(b, 40))), i as u64, json!({"bytes": hex_trunc(b, 80)})),
        }
    }
    rep.count("invalid_utf8_cases", bad.len() as u64);
    rep.sample(json!({"check": "invalid-utf8", "bytes": hex_trunc(&bad[9], 16), "verdict": "Err"}));
    rep.rule = "every algorithm × mode × level (gzip/zlib 0–9, zstd 0–22, lz4, brotli generic/text/font 0–11, presets) on payload classes {empty, 1 B, incompressible, run-length, text-like, mixed, header-lookalike} × sizes up to the frame limit; random small payloads on random algorithms; generated values through the three codecs and through encode→batch→compress→decompress→unbatch→decode; every class of malformed UTF-8; non-trivial = non-empty payload; distinct = (algorithm, payload) pair or value".into();
}

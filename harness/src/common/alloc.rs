//! Counting global allocator (installed only by binaries that declare it with
//! `#[global_allocator]`). Tracking is off by default and costs two relaxed loads per call.
//!
//! It records, while tracking is on: the largest single request and the peak of
//! (live bytes + request) *at request time* — the attempt matters, not whether the OS granted it.
//! Requests above `REFUSE_ABOVE` are refused (null) after writing `ALLOC-REFUSED <size>` to fd 2,
//! which makes the process abort via `handle_alloc_error`; the parent attributes the abort.

use std::alloc::{GlobalAlloc, Layout, System};
use std::sync::atomic::{AtomicBool, AtomicIsize, AtomicUsize, Ordering};

pub struct Counting;

pub static TRACK: AtomicBool = AtomicBool::new(false);
pub static MAX_REQ: AtomicUsize = AtomicUsize::new(0);
pub static LIVE: AtomicIsize = AtomicIsize::new(0);
pub static PEAK: AtomicIsize = AtomicIsize::new(0);
pub static REFUSE_ABOVE: AtomicUsize = AtomicUsize::new(usize::MAX);
pub static CALLS: AtomicUsize = AtomicUsize::new(0);

#[inline]
fn note(size: usize) -> bool {
    if !TRACK.load(Ordering::Relaxed) {
        return true;
    }
    CALLS.fetch_add(1, Ordering::Relaxed);
    MAX_REQ.fetch_max(size, Ordering::Relaxed);
    let live = LIVE.fetch_add(size as isize, Ordering::Relaxed) + size as isize;
    PEAK.fetch_max(live, Ordering::Relaxed);
    if size > REFUSE_ABOVE.load(Ordering::Relaxed) {
        LIVE.fetch_sub(size as isize, Ordering::Relaxed);
        let msg = format_refusal(size);
        unsafe {
            libc::write(2, msg.0.as_ptr() as *const libc::c_void, msg.1);
        }
        return false;
    }
    true
}

/// format without allocating
fn format_refusal(mut n: usize) -> ([u8; 48], usize) {
    let mut buf = [0u8; 48];
    let prefix = b"ALLOC-REFUSED ";
    buf[..prefix.len()].copy_from_slice(prefix);
    let mut digits = [0u8; 24];
    let mut k = 0;
    if n == 0 {
        digits[0] = b'0';
        k = 1;
    }
    while n > 0 {
        digits[k] = b'0' + (n % 10) as u8;
        n /= 10;
        k += 1;
    }
    let mut pos = prefix.len();
    for i in (0..k).rev() {
        buf[pos] = digits[i];
        pos += 1;
    }
    buf[pos] = b'\n';
    (buf, pos + 1)
}

unsafe impl GlobalAlloc for Counting {
    unsafe fn alloc(&self, layout: Layout) -> *mut u8 {
        if !note(layout.size()) {
            return std::ptr::null_mut();
        }
        System.alloc(layout)
    }
    unsafe fn alloc_zeroed(&self, layout: Layout) -> *mut u8 {
        if !note(layout.size()) {
            return std::ptr::null_mut();
        }
        System.alloc_zeroed(layout)
    }
    unsafe fn dealloc(&self, ptr: *mut u8, layout: Layout) {
        if TRACK.load(Ordering::Relaxed) {
            LIVE.fetch_sub(layout.size() as isize, Ordering::Relaxed);
        }
        System.dealloc(ptr, layout)
    }
    unsafe fn realloc(&self, ptr: *mut u8, layout: Layout, new_size: usize) -> *mut u8 {
        if TRACK.load(Ordering::Relaxed) {
            LIVE.fetch_sub(layout.size() as isize, Ordering::Relaxed);
        }
        if !note(new_size) {
            if TRACK.load(Ordering::Relaxed) {
                LIVE.fetch_add(layout.size() as isize, Ordering::Relaxed);
            }
            return std::ptr::null_mut();
        }
        System.realloc(ptr, layout, new_size)
    }
}

/// begin measuring one input
pub fn begin() {
    MAX_REQ.store(0, Ordering::Relaxed);
    let live = LIVE.load(Ordering::Relaxed);
    PEAK.store(live, Ordering::Relaxed);
    TRACK.store(true, Ordering::Relaxed);
}

/// end measuring: (largest single request, peak growth of live bytes)
pub fn end(live_at_begin: isize) -> (usize, isize) {
    TRACK.store(false, Ordering::Relaxed);
    (MAX_REQ.load(Ordering::Relaxed), PEAK.load(Ordering::Relaxed) - live_at_begin)
}

pub fn live() -> isize {
    LIVE.load(Ordering::Relaxed)
}

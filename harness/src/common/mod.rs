//! Shared plumbing for all engines: PRNG, stage reports, hashing, env handling.
//!
//! Every engine binary writes one *stage report* (JSON) to the path given with `--out`.
//! The `/verif/check` driver merges stage reports into `/verif/evidence/<ID>.json`, matches
//! violations against `/verif/known_findings.json` and prints the VIOLATION / KNOWN-FINDING
//! lines. Engines never decide on exit codes other than 0 (ran) / 3 (harness error).

pub mod alloc;

use serde_json::{json, Map, Value};
use std::collections::{BTreeMap, HashSet};
use std::time::Instant;

// ---------------------------------------------------------------------------------------
// PRNG (SplitMix64 seeding + xoshiro256**): deterministic, no dependencies.
// ---------------------------------------------------------------------------------------
#[derive(Clone, Debug)]
pub struct Rng {
    s: [u64; 4],
}

pub fn splitmix(x: &mut u64) -> u64 {
    *x = x.wrapping_add(0x9E3779B97F4A7C15);
    let mut z = *x;
    z = (z ^ (z >> 30)).wrapping_mul(0xBF58476D1CE4E5B9);
    z = (z ^ (z >> 27)).wrapping_mul(0x94D049BB133111EB);
    z ^ (z >> 31)
}

impl Rng {
    pub fn new(seed: u64) -> Self {
        let mut x = seed;
        let s = [
            splitmix(&mut x),
            splitmix(&mut x),
            splitmix(&mut x),
            splitmix(&mut x),
        ];
        Rng { s }
    }
    pub fn next_u64(&mut self) -> u64 {
        let result = self.s[1].wrapping_mul(5).rotate_left(7).wrapping_mul(9);
        let t = self.s[1] << 17;
        self.s[2] ^= self.s[0];
        self.s[3] ^= self.s[1];
        self.s[1] ^= self.s[2];
        self.s[0] ^= self.s[3];
        self.s[2] ^= t;
        self.s[3] = self.s[3].rotate_left(45);
        result
    }
    /// uniform in 0..n (n > 0)
    pub fn below(&mut self, n: u64) -> u64 {
        if n == 0 {
            return 0;
        }
        self.next_u64() % n
    }
    pub fn range(&mut self, lo: u64, hi_incl: u64) -> u64 {
        lo + self.below(hi_incl - lo + 1)
    }
    pub fn usize(&mut self, n: usize) -> usize {
        self.below(n as u64) as usize
    }
    /// true with probability pct/100
    pub fn pct(&mut self, pct: u32) -> bool {
        self.below(100) < pct as u64
    }
    pub fn pick<'a, T>(&mut self, xs: &'a [T]) -> &'a T {
        &xs[self.usize(xs.len())]
    }
    pub fn bytes(&mut self, n: usize) -> Vec<u8> {
        let mut v = Vec::with_capacity(n);
        while v.len() < n {
            let x = self.next_u64().to_le_bytes();
            let take = (n - v.len()).min(8);
            v.extend_from_slice(&x[..take]);
        }
        v
    }
    /// `n` random bytes with `n` uniform in 0..max
    pub fn rbytes(&mut self, max: u64) -> Vec<u8> {
        let n = self.below(max) as usize;
        self.bytes(n)
    }
    pub fn fork(&mut self) -> Rng {
        Rng::new(self.next_u64())
    }
}

pub fn mix(a: u64, b: u64) -> u64 {
    let mut x = a ^ b.rotate_left(32) ^ 0xD1B54A32D192ED03;
    splitmix(&mut x)
}

/// FNV-1a 64 over bytes, used for distinctness accounting.
pub fn fnv(bytes: &[u8]) -> u64 {
    let mut h: u64 = 0xcbf29ce484222325;
    for b in bytes {
        h ^= *b as u64;
        h = h.wrapping_mul(0x100000001b3);
    }
    h
}

pub struct Hasher64(pub u64);
impl Hasher64 {
    pub fn new() -> Self {
        Hasher64(0xcbf29ce484222325)
    }
    pub fn u(&mut self, x: u64) {
        for b in x.to_le_bytes() {
            self.0 ^= b as u64;
            self.0 = self.0.wrapping_mul(0x100000001b3);
        }
    }
    pub fn b(&mut self, bs: &[u8]) {
        for b in bs {
            self.0 ^= *b as u64;
            self.0 = self.0.wrapping_mul(0x100000001b3);
        }
        self.u(bs.len() as u64);
    }
    pub fn s(&mut self, s: &str) {
        self.b(s.as_bytes())
    }
}
impl Default for Hasher64 {
    fn default() -> Self {
        Self::new()
    }
}

// ---------------------------------------------------------------------------------------
// Environment
// ---------------------------------------------------------------------------------------
pub fn env_seed() -> u64 {
    std::env::var("VERIF_SEED")
        .ok()
        .and_then(|s| s.trim().parse::<i64>().ok())
        .map(|x| x as u64)
        .unwrap_or(1)
}

pub fn hex(bytes: &[u8]) -> String {
    let mut s = String::with_capacity(bytes.len() * 2);
    for b in bytes {
        s.push_str(&format!("{:02x}", b));
    }
    s
}

pub fn hex_trunc(bytes: &[u8], max: usize) -> String {
    if bytes.len() <= max {
        hex(bytes)
    } else {
        format!("{}…(+{} bytes)", hex(&bytes[..max]), bytes.len() - max)
    }
}

pub fn unhex(s: &str) -> Vec<u8> {
    (0..s.len() / 2)
        .map(|i| u8::from_str_radix(&s[2 * i..2 * i + 2], 16).unwrap_or(0))
        .collect()
}

// ---------------------------------------------------------------------------------------
// Stage report
// ---------------------------------------------------------------------------------------
#[derive(Clone, Debug)]
pub struct Violation {
    /// exact signature; the key used by known_findings.json
    pub signature: String,
    pub detail: String,
    /// path of a replay file (written by the engine), may be empty
    pub replay: String,
}

pub struct StageReport {
    pub property: String,
    pub stage: String,
    pub tier: String,
    pub seed: u64,
    pub evaluations: u64,
    pub distinct: HashSet<u64>,
    pub rule: String,
    pub samples: Vec<Value>,
    pub max_samples: usize,
    pub violations: Vec<Violation>,
    pub violation_count: u64,
    pub inconclusive: BTreeMap<String, u64>,
    pub counters: BTreeMap<String, u64>,
    pub extra: Map<String, Value>,
    pub assumptions: Vec<String>,
    pub started: Instant,
}

impl StageReport {
    pub fn new(property: &str, stage: &str, tier: &str, seed: u64) -> Self {
        StageReport {
            property: property.into(),
            stage: stage.into(),
            tier: tier.into(),
            seed,
            evaluations: 0,
            distinct: HashSet::new(),
            rule: String::new(),
            samples: vec![],
            max_samples: 4,
            violations: vec![],
            violation_count: 0,
            inconclusive: BTreeMap::new(),
            counters: BTreeMap::new(),
            extra: Map::new(),
            assumptions: vec![],
            started: Instant::now(),
        }
    }
    pub fn count(&mut self, key: &str, n: u64) {
        *self.counters.entry(key.to_string()).or_insert(0) += n;
    }
    pub fn inconclusive(&mut self, why: &str) {
        *self.inconclusive.entry(why.to_string()).or_insert(0) += 1;
    }
    pub fn sample(&mut self, v: Value) {
        if self.samples.len() < self.max_samples {
            self.samples.push(v);
        }
    }
    /// Record a violation; keeps at most 3 witnesses per distinct signature.
    pub fn violation(&mut self, v: Violation) {
        self.violation_count += 1;
        let same = self
            .violations
            .iter()
            .filter(|x| x.signature == v.signature)
            .count();
        if same < 3 && self.violations.len() < 60 {
            self.violations.push(v);
        }
    }
    pub fn merge(&mut self, other: StageReport) {
        self.evaluations += other.evaluations;
        self.distinct.extend(other.distinct);
        for s in other.samples {
            self.sample(s);
        }
        self.violation_count += other.violation_count;
        for v in other.violations {
            let same = self
                .violations
                .iter()
                .filter(|x| x.signature == v.signature)
                .count();
            if same < 3 && self.violations.len() < 60 {
                self.violations.push(v);
            }
        }
        for (k, n) in other.inconclusive {
            *self.inconclusive.entry(k).or_insert(0) += n;
        }
        for (k, n) in other.counters {
            *self.counters.entry(k).or_insert(0) += n;
        }
        for (k, v) in other.extra {
            self.extra.entry(k).or_insert(v);
        }
    }
    pub fn to_json(&self) -> Value {
        let viol: Vec<Value> = self
            .violations
            .iter()
            .map(|v| json!({"signature": v.signature, "detail": v.detail, "replay": v.replay}))
            .collect();
        json!({
            "property": self.property,
            "stage": self.stage,
            "tier": self.tier,
            "seed": self.seed,
            "evaluations": self.evaluations,
            "distinct_nontrivial": self.distinct.len(),
            "rule": self.rule,
            "samples": self.samples,
            "violations": viol,
            "violation_count": self.violation_count,
            "inconclusive": self.inconclusive,
            "counters": self.counters,
            "extra": self.extra,
            "assumptions": self.assumptions,
            "wall_s": self.started.elapsed().as_secs_f64(),
        })
    }
    pub fn write(&self, path: &str) {
        let v = self.to_json();
        if let Some(parent) = std::path::Path::new(path).parent() {
            let _ = std::fs::create_dir_all(parent);
        }
        std::fs::write(path, serde_json::to_string_pretty(&v).unwrap()).expect("write stage report");
    }
}

pub fn replay_dir() -> String {
    let d = std::env::var("VERIF_REPLAY_DIR").unwrap_or_else(|_| "/verif/replays".to_string());
    let _ = std::fs::create_dir_all(&d);
    d
}

/// Write a replay file and return its path.
pub fn write_replay(property: &str, signature: &str, run_seed: u64, body: Value) -> String {
    let mut sig = String::new();
    for c in signature.chars() {
        if c.is_ascii_alphanumeric() || c == '-' || c == '.' {
            sig.push(c)
        } else {
            sig.push('_')
        }
    }
    if sig.len() > 80 {
        sig.truncate(80);
    }
    let path = format!("{}/{}-{}-{:016x}.json", replay_dir(), property, sig, run_seed);
    // every witness records the seed of the check run it came from, so that the driver can re-run it
    let mut body = body;
    if let Some(o) = body.as_object_mut() {
        o.entry("verif_seed").or_insert(json!(env_seed()));
        o.entry("verif_tier").or_insert(json!(std::env::var("VERIF_TIER_EFFECTIVE").unwrap_or_else(|_| "quick".into())));
    }
    let _ = std::fs::write(&path, serde_json::to_string_pretty(&body).unwrap());
    path
}

/// Simple argv helper: `--key value` pairs and flags.
pub struct Args {
    pub v: Vec<String>,
}
impl Args {
    pub fn from_env() -> Self {
        Args {
            v: std::env::args().skip(1).collect(),
        }
    }
    pub fn get(&self, key: &str) -> Option<String> {
        let k = format!("--{}", key);
        self.v
            .iter()
            .position(|a| *a == k)
            .and_then(|i| self.v.get(i + 1).cloned())
    }
    pub fn get_or(&self, key: &str, d: &str) -> String {
        self.get(key).unwrap_or_else(|| d.to_string())
    }
    pub fn num(&self, key: &str, d: u64) -> u64 {
        self.get(key).and_then(|s| s.parse().ok()).unwrap_or(d)
    }
    pub fn flag(&self, key: &str) -> bool {
        let k = format!("--{}", key);
        self.v.iter().any(|a| *a == k)
    }
}


/// Run `total` independent cases on `threads` worker threads; each case gets its own PRNG derived
/// from (seed, index) and a thread-local report that is merged into `rep` at the end.
pub fn par_cases<F>(rep: &mut StageReport, threads: usize, total: u64, seed: u64, f: F)
where
    F: Fn(u64, &mut Rng, &mut StageReport) + Send + Sync + 'static,
{
    use std::sync::atomic::{AtomicU64, Ordering};
    use std::sync::Arc;
    let next = Arc::new(AtomicU64::new(0));
    let f = Arc::new(f);
    let mut hs = vec![];
    for _ in 0..threads.max(1) {
        let next = next.clone();
        let f = f.clone();
        let (p, st, ti, sd) = (rep.property.clone(), rep.stage.clone(), rep.tier.clone(), rep.seed);
        hs.push(std::thread::spawn(move || {
            let mut local = StageReport::new(&p, &st, &ti, sd);
            loop {
                let i = next.fetch_add(1, Ordering::SeqCst);
                if i >= total {
                    break;
                }
                let mut rng = Rng::new(mix(seed, i));
                f(i, &mut rng, &mut local);
            }
            local
        }));
    }
    for h in hs {
        if let Ok(l) = h.join() {
            rep.merge(l);
        }
    }
}


/// A `log` logger that formats every record and throws the text away: what the log statements of the code under test
/// evaluate (arguments are only evaluated when a logger is enabled — the real server binary always installs one) is
/// evaluated in the simulations too.
pub fn install_discarding_logger() {
    struct Discard;
    struct Null;
    impl std::fmt::Write for Null {
        fn write_str(&mut self, _: &str) -> std::fmt::Result {
            Ok(())
        }
    }
    impl log::Log for Discard {
        fn enabled(&self, _: &log::Metadata) -> bool {
            true
        }
        fn log(&self, record: &log::Record) {
            let _ = std::fmt::Write::write_fmt(&mut Null, *record.args());
        }
        fn flush(&self) {}
    }
    static LOGGER: Discard = Discard;
    if std::env::var("VERIF_LOG").map(|v| v == "off").unwrap_or(false) {
        return;
    }
    if log::set_logger(&LOGGER).is_ok() {
        log::set_max_level(log::LevelFilter::Trace);
    }
}

//! L2/L4 engine: pure-function monitors and the decoder sandbox.
//!
//! wiregen --property C05|C06|C07|C13|C14 --tier quick|thorough --out <path>
//! wiregen --c06-child --seed S --from A --to B --progress <file> --child-out <file> [--no-track]
//! wiregen --c06-one --seed S --idx N

use vharness::common::alloc::Counting;
use vharness::common::{env_seed, Args, StageReport};
use vharness::wiregen::{c05, c06, c07, c13, c14};

#[global_allocator]
static GLOBAL: Counting = Counting;

fn main() {
    let args = Args::from_env();
    vharness::common::install_discarding_logger();
    if args.flag("c06-child") {
        c06::child_main(
            args.num("seed", 1),
            args.num("from", 0),
            args.num("to", 0),
            &args.get_or("progress", "/dev/null"),
            &args.get_or("child-out", "/dev/null"),
            !args.flag("no-track"),
        );
        return;
    }
    if args.flag("noop") {
        return;
    }
    if args.flag("c06-one") {
        c06::run_one(args.num("seed", 1), args.num("idx", 0));
        return;
    }
    let property = args.get_or("property", "C05");
    let tier = args.get_or("tier", "quick");
    let out = args.get_or("out", "/verif/harness/work/wiregen.json");
    let seed = env_seed();
    let stage = match args.get("profile-label") {
        Some(l) => format!("L2-wiregen-{}-profile", l),
        None => "L2-wiregen".to_string(),
    };
    let mut rep = StageReport::new(&property, &stage, &tier, seed);
    // keep the default hook quiet: decoders are expected to panic on a defective tree
    std::panic::set_hook(Box::new(|info| {
        // panics on the main thread are harness errors and must be visible
        if std::thread::current().name() == Some("main") && std::env::var("VERIF_QUIET_MAIN").is_err() {
            if let Some(l) = info.location() {
                if l.file().starts_with("src/") {
                    eprintln!("harness panic at {}:{}: {:?}", l.file(), l.line(), info.payload().downcast_ref::<String>().cloned().or(info.payload().downcast_ref::<&str>().map(|s| s.to_string())));
                }
            }
        }
    }));
    match property.as_str() {
        "C05" => c05::run(&mut rep, &tier, seed),
        "C06" => {
            let exe = std::env::current_exe().unwrap().to_string_lossy().to_string();
            // scratch directory next to the report, unique per process, removed afterwards
            let base = std::path::Path::new(&out).parent().map(|p| p.to_string_lossy().to_string()).unwrap_or_else(|| "/verif/harness/work".into());
            let work = format!("{}/c06-{}", base, std::process::id());
            c06::run(&mut rep, &tier, seed, &exe, &work);
            let _ = std::fs::remove_dir_all(&work);
        }
        "C07" => c07::run(&mut rep, &tier, seed),
        "C13" => {
            let profile = if cfg!(debug_assertions) { "dev" } else { "release" };
            c13::run(&mut rep, &tier, seed, profile)
        }
        "C14" => c14::run(&mut rep, &tier, seed),
        _ => {
            eprintln!("wiregen: unknown property {}", property);
            std::process::exit(3);
        }
    }
    rep.write(&out);
    println!("wiregen {} {}: {} evaluations, {} distinct non-trivial, {} violation(s)", property, tier, rep.evaluations, rep.distinct.len(), rep.violation_count);
}

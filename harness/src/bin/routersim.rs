//! L1 engine: runs the router simulator for one property and writes a stage report.
//!
//! routersim --property C01 --tier quick --out <path> [--runs N] [--threads N]
//! routersim --replay-seed <u64> --engine pubsub|reqrep --family c01 --property C01   (prints the run)

use serde_json::json;
use std::collections::{BTreeMap, HashSet};
use std::sync::atomic::{AtomicU64, Ordering};
use std::sync::{Arc, Mutex};
use vharness::common::{env_seed, mix, write_replay, Args, StageReport, Violation};
use vharness::routersim::{exec, pubsub, reqrep, RunResult};

/// (engine, family, classes): `classes` = None → every oracle class of the run counts for this property
/// (minus `excluded`); Some(list) → only those classes count (used when a property borrows the workload
/// family of another property to reach more states)
type Fam = (&'static str, &'static str, Option<&'static [&'static str]>);

fn families(property: &str) -> Vec<Fam> {
    const C02_CORE: &[&str] = &["routing", "flush", "probe", "panic", "spin", "livelock"];
    // "flush": data handed to a sink but not flushed while nothing will wake the router is work the router sleeps on
    // "binding-stalled": a replier that is neither served nor told it was rejected while the router is parked
    const C09_CORE: &[&str] = &["spin", "livelock", "sleep", "abandoned", "flush", "starved-after-failure", "binding-stalled"];
    // a peer whose registration was accepted (the server answered Ok) and then never reached the router
    const C11_STORM: &[&str] = &["abandoned", "panic", "spin", "livelock"];
    const C01_CORE: &[&str] = &["delivery", "flush", "probe", "panic"];
    const C11_REBIND: &[&str] = &["binding", "binding-stalled", "panic", "spin", "livelock", "probe"];
    const C10_STORM: &[&str] = &["binding", "binding-stalled", "abandoned", "panic", "spin", "livelock", "probe"];
    match property {
        // the fault family is included: the statement is about subscribers that *stay healthy* while
        // others may fail, be evicted and be replaced by new registrations
        // … and the shutdown family: a message accepted before the channel closes must still be delivered
        "C01" => vec![("pubsub", "c01", None), ("pubsub", "c01", None), ("pubsub", "c08", None), ("pubsub", "c16", Some(C01_CORE)), ("pubsub", "firehose", Some(C01_CORE)), ("pubsub", "wide", Some(C01_CORE))],
        // replier bind/unbind interleaved with requests and replies is part of the quantifier
        "C02" => vec![("reqrep", "c02", None), ("reqrep", "c02", None), ("reqrep", "c10", Some(C02_CORE)), ("reqrep", "c08", Some(C02_CORE)), ("reqrep", "firehose", None)],
        // mass failures (a client with dozens of streams loses its connection) live in the burst family
        "C08" => vec![("pubsub", "c08", None), ("reqrep", "c08", None), ("pubsub", "burst", None), ("reqrep", "burst", None), ("pubsub", "wide", None)],
        // "all reachable router states" includes the states reached through faults and re-binding
        "C09" => vec![("pubsub", "c09", None), ("reqrep", "c09", None), ("pubsub", "c09", None), ("reqrep", "c09", None), ("pubsub", "c08", Some(C09_CORE)), ("reqrep", "c08", Some(C09_CORE)), ("reqrep", "c10", Some(C09_CORE)), ("reqrep", "c11", Some(C09_CORE)), ("pubsub", "burst", None), ("reqrep", "burst", None), ("pubsub", "firehose", Some(C09_CORE)), ("reqrep", "firehose", Some(C09_CORE)), ("pubsub", "wide", Some(C09_CORE))],
        // late repliers and successors that arrive in the middle of a registration storm
        "C10" => vec![("reqrep", "c10", None), ("reqrep", "burst", Some(C10_STORM))],
        // "accepted and then silently abandoned" also covers repliers that race for a topic: each must end up
        // served or explicitly refused (binding oracle), whatever the other repliers' sinks do
        "C11" => vec![("pubsub", "c11", None), ("reqrep", "c11", None), ("reqrep", "c10", Some(C11_REBIND)), ("pubsub", "burst", Some(C11_STORM)), ("reqrep", "burst", Some(C11_STORM))],
        // … and a shutdown that arrives in the middle of a busy scheduling step (firehose family: close while relaying),
        // or between two polls of a router that serves a very wide fan-out (wide family)
        "C16" => vec![("pubsub", "c16", None), ("reqrep", "c16", None), ("pubsub", "c16", None), ("reqrep", "c16", None), ("pubsub", "burst", None), ("reqrep", "burst", None), ("pubsub", "firehose", None), ("pubsub", "wide", None)],
        _ => vec![],
    }
}

/// oracle classes that belong to another property's statement and are only counted here
fn excluded(property: &str) -> &'static [&'static str] {
    match property {
        // "starved-after-failure": healthy peers' input left unread right after other peers failed — C08's and C09's
        "C01" => &["sleep", "abandoned", "starved-after-failure"],
        "C02" => &["sleep", "abandoned", "binding", "binding-stalled", "starved-after-failure"],
        "C08" => &["sleep", "abandoned"],
        "C10" => &["sleep", "starved-after-failure"],
        "C11" => &["sleep", "starved-after-failure"],
        "C16" => &["sleep", "abandoned", "starved-after-failure"],
        _ => &[],
    }
}

fn run_one(engine: &str, family: &str, seed: u64, keep: bool) -> RunResult {
    match engine {
        "pubsub" => pubsub::run(seed, family, keep),
        "reqrep" => reqrep::run(seed, family, keep),
        _ => panic!("unknown engine"),
    }
}

fn main() {
    let args = Args::from_env();
    vharness::common::install_discarding_logger();
    exec::install_panic_hook();
    let property = args.get_or("property", "C01");
    let tier = args.get_or("tier", "quick");
    let seed = env_seed();

    if let Some(rs) = args.get("replay-seed") {
        let rs: u64 = rs.parse().expect("seed");
        let engine = args.get_or("engine", "pubsub");
        let family = args.get_or("family", "c01");
        exec::register_worker();
        // StreamMap picks its start index from a private RNG: retry a few times to reproduce
        let tries = args.num("tries", 50);
        let mut reproduced = false;
        for i in 0..tries {
            let r = run_one(&engine, &family, rs, true);
            let ex = excluded(&property);
            let hits: Vec<_> = r.findings.iter().filter(|f| !ex.contains(&f.class)).collect();
            if !hits.is_empty() || i == tries - 1 {
                println!("{}", serde_json::to_string_pretty(&json!({
                    "config": r.config, "findings": r.findings.iter().map(|f| json!({"class": f.class, "sig": f.sig, "detail": f.detail})).collect::<Vec<_>>(),
                    "log": r.dump,
                })).unwrap());
                reproduced = !hits.is_empty();
                break;
            }
        }
        if reproduced {
            println!("REPLAY: violation reproduced");
            std::process::exit(1);
        }
        println!("REPLAY: no violation on this tree");
        return;
    }

    let out = args.get_or("out", "/verif/harness/work/routersim.json");
    let default_runs = if tier == "thorough" { 600_000 } else { 24_000 };
    let runs = args.num("runs", default_runs);
    let threads = args.num("threads", if cfg!(miri) { 1 } else { 16 }) as usize;
    let fams = families(&property);
    if fams.is_empty() {
        eprintln!("routersim: property {} has no L1 family", property);
        std::process::exit(3);
    }

    let next = Arc::new(AtomicU64::new(0));
    let merged = Arc::new(Mutex::new(StageReport::new(&property, "L1-routersim", &tier, seed)));
    let poll_sigs = Arc::new(Mutex::new(HashSet::<u64>::new()));
    let states = Arc::new(Mutex::new(HashSet::<u64>::new()));
    let goals = Arc::new(Mutex::new(BTreeMap::<String, u64>::new()));

    // watchdog for infinite loops that touch no mock
    {
        let property = property.clone();
        let tier = tier.clone();
        let out = out.clone();
        exec::spawn_cpu_watchdog(
            20.0,
            Box::new(move |run_seed| {
                let mut rep = StageReport::new(&property, "L1-routersim", &tier, seed);
                rep.evaluations = 1;
                rep.rule = "aborted by CPU-time watchdog".into();
                let path = write_replay(&property, "hang-in-poll", run_seed, json!({"property": property, "run_seed": run_seed,
                    "note": "a single router poll consumed more than 20 s of thread CPU time without returning and without touching any mock"}));
                rep.violation(Violation { signature: format!("{}/routersim/hang-in-poll", property), detail: format!("a single poll of the router burnt > 20 s CPU without returning (run seed {})", run_seed), replay: path });
                rep.write(&out);
                std::process::exit(0);
            }),
        );
    }

    let mut handles = vec![];
    for _t in 0..threads {
        let next = next.clone();
        let merged = merged.clone();
        let poll_sigs = poll_sigs.clone();
        let states = states.clone();
        let goals = goals.clone();
        let property = property.clone();
        let tier = tier.clone();
        let fams = fams.clone();
        handles.push(std::thread::spawn(move || {
            exec::register_worker();
            let mut local = StageReport::new(&property, "L1-routersim", &tier, seed);
            let mut lsigs = HashSet::new();
            let mut lstates = HashSet::new();
            let mut lgoals: BTreeMap<String, u64> = BTreeMap::new();
            let ex = excluded(&property);
            loop {
                let i = next.fetch_add(1, Ordering::SeqCst);
                if i >= runs {
                    break;
                }
                // heavy families (thousands of items or dozens of peers per run) get 1 run in 40
                let heavy: Vec<&Fam> = fams.iter().filter(|f| matches!(f.1, "firehose" | "burst" | "wide")).collect();
                let light: Vec<&Fam> = fams.iter().filter(|f| !matches!(f.1, "firehose" | "burst" | "wide")).collect();
                // (not under Miri: a firehose history would take hours to interpret)
                let (engine, family, only) = if !heavy.is_empty() && i % 40 == 7 && !cfg!(miri) {
                    *heavy[((i / 40) % heavy.len() as u64) as usize]
                } else {
                    *light[(i % light.len() as u64) as usize]
                };
                let run_seed = mix(mix(seed, i), vharness::common::fnv(family.as_bytes()) ^ vharness::common::fnv(engine.as_bytes()));
                let keep = i < fams.len() as u64 * 2;
                let r = run_one(engine, family, run_seed, keep);
                local.evaluations += 1;
                if r.nontrivial {
                    local.distinct.insert(r.trace_hash);
                } else {
                    local.count("trivial_runs", 1);
                }
                local.count("router_polls", r.stats.polls);
                local.count("scheduler_actions", r.stats.actions);
                local.count("mock_calls", r.stats.mock_calls);
                local.count("frames_handed_to_sinks", r.stats.deliveries);
                local.count("frames_taken_from_streams", r.stats.items_yielded);
                local.count("pending_outcomes", r.stats.pendings);
                local.count("faults_fired", r.stats.faults_fired);
                local.count("registrations", r.stats.registrations);
                local.count(&format!("runs/{}/{}", engine, family), 1);
                for s in &r.poll_sigs {
                    lsigs.insert(*s);
                }
                for s in &r.states {
                    lstates.insert(*s);
                }
                for g in &r.goals {
                    *lgoals.entry(g.to_string()).or_insert(0) += 1;
                }
                if keep {
                    if let Some(d) = &r.dump {
                        local.sample(json!({"config": r.config, "log": d}));
                    }
                }
                let mut seen_sig = HashSet::new();
                for f in &r.findings {
                    if ex.contains(&f.class) || only.map_or(false, |o| !o.contains(&f.class)) {
                        local.count(&format!("findings_of_other_properties/{}", f.sig), 1);
                        continue;
                    }
                    let signature = format!("{}/{}", property, f.sig);
                    if !seen_sig.insert(signature.clone()) {
                        continue;
                    }
                    let already = local.violations.iter().filter(|v| v.signature == signature).count();
                    let replay = if already < 2 {
                        write_replay(&property, &f.sig, run_seed, json!({
                            "property": property, "engine": engine, "family": family, "run_seed": run_seed,
                            "replay_cmd": format!("/verif/harness/target/release/routersim --property {} --engine {} --family {} --replay-seed {}", property, engine, family, run_seed),
                            "signature": signature, "detail": f.detail,
                            "all_findings": r.findings.iter().map(|f| json!({"class": f.class, "sig": f.sig, "detail": f.detail})).collect::<Vec<_>>(),
                            "config": r.config, "log": r.dump,
                        }))
                    } else {
                        String::new()
                    };
                    local.violation(Violation { signature, detail: f.detail.clone(), replay });
                }
            }
            merged.lock().unwrap().merge(local);
            poll_sigs.lock().unwrap().extend(lsigs);
            states.lock().unwrap().extend(lstates);
            let mut g = goals.lock().unwrap();
            for (k, v) in lgoals {
                *g.entry(k).or_insert(0) += v;
            }
        }));
    }
    for h in handles {
        let _ = h.join();
    }
    let mut rep = Arc::try_unwrap(merged).ok().unwrap().into_inner().unwrap();
    rep.rule = "one evaluation = one randomly scheduled history (≤ 90 scheduler actions) of the real router future with mock peers on a wake-driven executor, followed by settle + probe; distinct = distinct hash of the full boundary event log; non-trivial = at least one frame handed to a sink and at least one pending or fault outcome".into();
    rep.extra.insert("distinct_poll_signatures".into(), json!(poll_sigs.lock().unwrap().len()));
    rep.extra.insert("distinct_abstract_states_at_poll_return".into(), json!(states.lock().unwrap().len()));
    rep.extra.insert("scenario_goals_hit".into(), json!(*goals.lock().unwrap()));
    rep.extra.insert("families".into(), json!(fams.iter().map(|(e, f, only)| format!("{}/{}{}", e, f, only.map(|o| format!(" (classes {:?})", o)).unwrap_or_default())).collect::<Vec<_>>()));
    rep.assumptions = vec![
        "mock sinks/streams follow the futures Sink/Stream contracts and the observed behaviour of tokio-util FramedWrite/FramedRead (re-poll after end yields None again; a pending mock stores the waker and fires it when unblocked)".into(),
        "the executor polls the router exactly when its waker fired (plus optional spurious polls in families that allow them)".into(),
    ];
    rep.write(&out);
    println!("routersim {} {}: {} runs, {} distinct non-trivial, {} violation(s) [{} signatures]", property, tier, rep.evaluations, rep.distinct.len(), rep.violation_count, rep.violations.iter().map(|v| v.signature.clone()).collect::<HashSet<_>>().len());
}

//! L3 engine: the real system over loopback QUIC.
//!
//! testbed --property C03|C04|C07|C11|C12|C15|C16|C17|C01|C02|C09|C10 --tier quick|thorough --out <path>
//! testbed --serve --certs <dir> --addr-file <path>          (child: the server, exactly like main.rs)
//! testbed --c09-child <scenario> --certs <dir>              (child: single-threaded runtime + heartbeat)

use vharness::common::{env_seed, Args, StageReport};
use vharness::common::alloc::Counting;
use vharness::testbed::{self, c03, c04, c06, c07, c11, c12, c15, c16, c17, l3routers};

#[global_allocator]
static GLOBAL: Counting = Counting;

/// What `selium-server -vvvv` does in main.rs: a logger that formats every record of the server (and protocol /
/// client) crates, so that whatever the log statements evaluate is evaluated in every L3 stage too. Output is discarded.
fn install_discarding_logger() {
    if std::env::var("VERIF_LOG").map(|v| v == "off").unwrap_or(false) {
        return;
    }
    let mut b = env_logger::Builder::new();
    b.filter_module("selium_server", log::LevelFilter::Trace)
        .filter_module("selium_protocol", log::LevelFilter::Trace)
        .filter_module("selium_std", log::LevelFilter::Trace)
        .filter_module("selium", log::LevelFilter::Trace)
        .target(env_logger::Target::Pipe(Box::new(std::io::sink())));
    let _ = b.try_init();
}

fn main() {
    let args = Args::from_env();
    install_discarding_logger();
    if args.flag("c06-l3-child") {
        c06::child_main(args.num("seed", 1), args.num("n", 100), &args.get_or("child-out", "/dev/null"));
        return;
    }
    if args.flag("serve") {
        c16::serve_main_with(&args.get_or("certs", ""), &args.get_or("addr-file", ""), &args.get_or("bind", "127.0.0.1:0"), args.get("ca"));
        return;
    }
    if let Some(name) = args.get("c09-child") {
        l3routers::c09_child_main(&name, &args.get_or("certs", ""));
        return;
    }
    let property = args.get_or("property", "C03");
    let tier = args.get_or("tier", "quick");
    let out = args.get_or("out", "/verif/harness/work/testbed.json");
    let seed = env_seed();
    let exe = std::env::current_exe().unwrap().to_string_lossy().to_string();
    let mut rep = StageReport::new(&property, "L3-testbed", &tier, seed);
    rep.max_samples = 8;
    testbed::install_panic_log();
    match property.as_str() {
        "C01" => l3routers::run_c01(&mut rep, &tier, seed),
        "C02" => l3routers::run_c02(&mut rep, &tier, seed),
        "C03" => c03::run(&mut rep, &tier, seed),
        "C04" => c04::run(&mut rep, &tier, seed, &exe),
        "C06" => c06::run(&mut rep, &tier, seed, &exe),
        "C07" => c07::run(&mut rep, &tier, seed),
        "C09" => l3routers::run_c09(&mut rep, &tier, seed, &exe),
        "C10" => l3routers::run_c10(&mut rep, &tier, seed),
        "C11" => c11::run(&mut rep, &tier, seed),
        "C12" => c12::run(&mut rep, &tier, seed),
        "C14" => c12::run_c14(&mut rep, &tier, seed),
        "C15" => c15::run(&mut rep, &tier, seed, &exe),
        "C16" => c16::run(&mut rep, &tier, seed, &exe),
        "C17" => c17::run(&mut rep, &tier, seed),
        _ => {
            eprintln!("testbed: property {} has no L3 stage", property);
            std::process::exit(3);
        }
    }
    testbed::cleanup_scratch();
    rep.assumptions.push("L3 verdicts on absence use fences / barriers and wide margins; a watchdog firing is reported as inconclusive, never as a violation".into());
    rep.write(&out);
    println!("testbed {} {}: {} evaluations, {} distinct non-trivial, {} violation(s), inconclusive: {:?}", property, tier, rep.evaluations, rep.distinct.len(), rep.violation_count, rep.inconclusive);
    std::process::exit(0);
}

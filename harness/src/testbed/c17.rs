//! C17 — a stalled topic cannot block registration or traffic on other topics.
//!
//! Scenario per evaluation: on topic A a raw subscriber registers and never reads; a publisher
//! floods A until its own `send` blocks and a healthy A-subscriber stops advancing (stall
//! *established*); then `q` further registrations on A over several connections; then a fresh
//! subscriber + publisher on topic B must complete a round trip.

use super::*;
use crate::common::{write_replay, StageReport, Violation};
use selium::prelude::*;
use selium::std::codecs::BytesCodec;
use selium_protocol::{SubscriberPayload, TopicName};
use serde_json::json;
use std::sync::atomic::AtomicU64;
use std::time::Instant;

enum Out {
    Held { b_roundtrip_ms: u128, queued_ok: usize },
    Violated(String, String),
    Inconclusive(String),
}

async fn scenario(q: usize, before_stall: bool, id: u64) -> Out {
    let certs = match gen_certs() {
        Ok(c) => c,
        Err(e) => return Out::Inconclusive(format!("certs: {e}")),
    };
    let server = match start_server(&certs) {
        Ok(s) => s,
        Err(e) => return Out::Inconclusive(format!("server: {e}")),
    };
    let addr = server.addr;
    let topic_a = format!("/stall{}/topic-a", id);
    let topic_b = format!("/free{}/topic-b", id);
    let tn_a = TopicName::try_from(topic_a.as_str()).unwrap();
    // raw subscriber that never reads
    let stall_conn = match raw_connect(addr, &certs).await {
        Ok(c) => c,
        Err(e) => return Out::Inconclusive(format!("raw connect: {e}")),
    };
    let sub_frame = |tn: &TopicName| Frame::RegisterSubscriber(SubscriberPayload { topic: tn.clone(), retention_policy: 0, operations: vec![] });
    let (_stalled_stream, r) = match stall_conn.open(sub_frame(&tn_a), Duration::from_secs(10)).await {
        Ok(x) => x,
        Err(e) => return Out::Inconclusive(format!("stalled subscriber registration: {e}")),
    };
    if r != Some(Frame::Ok) {
        return Out::Inconclusive(format!("stalled subscriber registration answered {:?}", r));
    }
    // healthy subscriber on A
    let hc = match lib_client(&addr.to_string(), &certs, None).await {
        Ok(c) => c,
        Err(e) => return Out::Inconclusive(format!("connect: {e}")),
    };
    let mut healthy = match hc.subscriber(&topic_a).with_decoder(BytesCodec).open().await {
        Ok(s) => s,
        Err(e) => return Out::Inconclusive(format!("healthy subscriber: {e}")),
    };
    let progress = Arc::new(AtomicU64::new(0));
    let p2 = progress.clone();
    let reader = tokio::spawn(async move {
        while let Some(Ok(_)) = healthy.next().await {
            p2.fetch_add(1, Ordering::SeqCst);
        }
    });
    // registrations that arrive before the stall (they are adopted or queued while the router still runs)
    let mut extra_conns: Vec<RawConn> = vec![];
    let mut queued_streams = vec![];
    let mut queued_ok = 0usize;
    let mut register_many = |n: usize| {
        let certs = certs.clone();
        let tn_a = tn_a.clone();
        async move {
            let mut conns = vec![];
            let mut streams = vec![];
            let mut oks = 0usize;
            let mut left = n;
            while left > 0 {
                let c = match raw_connect(addr, &certs).await {
                    Ok(c) => c,
                    Err(_) => break,
                };
                let batch = left.min(80);
                let mut unanswered = 0;
                for _ in 0..batch {
                    // Ok is sent before the socket is queued, so it normally arrives; a missing Ok is not
                    // what this property is about (two unanswered opens in a row: stop queueing on this connection)
                    match c.open(Frame::RegisterSubscriber(SubscriberPayload { topic: tn_a.clone(), retention_policy: 0, operations: vec![] }), Duration::from_secs(3)).await {
                        Ok((s, Some(Frame::Ok))) => {
                            oks += 1;
                            unanswered = 0;
                            streams.push(s);
                        }
                        Ok((s, _)) => streams.push(s),
                        Err(_) => {
                            unanswered += 1;
                            if unanswered >= 2 {
                                break;
                            }
                        }
                    }
                }
                left -= batch;
                conns.push(c);
            }
            (conns, streams, oks)
        }
    };
    if before_stall {
        let (c, s, o) = register_many(q).await;
        extra_conns.extend(c);
        queued_streams.extend(s);
        queued_ok += o;
    }
    // flood A until the publisher itself blocks
    let pc = match lib_client(&addr.to_string(), &certs, None).await {
        Ok(c) => c,
        Err(e) => return Out::Inconclusive(format!("connect: {e}")),
    };
    let mut flooder = match pc.publisher(&topic_a).with_encoder(BytesCodec).open().await {
        Ok(p) => p,
        Err(e) => return Out::Inconclusive(format!("flooding publisher: {e}")),
    };
    let chunk = vec![0x42u8; 32 * 1024];
    let t0 = Instant::now();
    let mut sent = 0u64;
    let mut publisher_blocked = false;
    while t0.elapsed() < Duration::from_secs(40) {
        match tokio::time::timeout(Duration::from_millis(1500), flooder.send(chunk.clone())).await {
            Ok(Ok(())) => sent += 1,
            Ok(Err(e)) => return Out::Inconclusive(format!("flooding publisher failed: {e}")),
            Err(_) => {
                publisher_blocked = true;
                break;
            }
        }
    }
    if !publisher_blocked {
        return Out::Inconclusive(format!("precondition not reached: publisher never blocked after {} × 32 KiB", sent));
    }
    // the healthy subscriber must have stopped advancing
    let a = progress.load(Ordering::SeqCst);
    tokio::time::sleep(Duration::from_millis(800)).await;
    let b = progress.load(Ordering::SeqCst);
    if b != a {
        tokio::time::sleep(Duration::from_millis(1500)).await;
        if progress.load(Ordering::SeqCst) != b {
            return Out::Inconclusive("precondition not reached: healthy subscriber of the flooded topic kept advancing".into());
        }
    }
    // registrations queueing up behind the stalled router
    if !before_stall {
        let (c, s, o) = register_many(q).await;
        extra_conns.extend(c);
        queued_streams.extend(s);
        queued_ok += o;
    }
    tokio::time::sleep(Duration::from_millis(300)).await;
    // topic B must work
    let t1 = Instant::now();
    let fut = async {
        let cb = lib_client(&addr.to_string(), &certs, None).await.map_err(|e| format!("connect for topic B: {e}"))?;
        let mut sub = cb.subscriber(&topic_b).with_decoder(BytesCodec).open().await.map_err(|e| format!("open subscriber on B: {e}"))?;
        let cb2 = lib_client(&addr.to_string(), &certs, None).await.map_err(|e| format!("connect for topic B: {e}"))?;
        let mut publ = cb2.publisher(&topic_b).with_encoder(BytesCodec).open().await.map_err(|e| format!("open publisher on B: {e}"))?;
        let mut n = 0u8;
        loop {
            n = n.wrapping_add(1);
            publ.send(vec![b'B', n]).await.map_err(|e| format!("send on B: {e}"))?;
            match tokio::time::timeout(Duration::from_millis(250), sub.next()).await {
                Ok(Some(Ok(v))) if v.first() == Some(&b'B') => return Ok::<(), String>(()),
                Ok(Some(Ok(v))) => return Err(format!("TRAFFIC-LEAK topic B subscriber received foreign payload of {} bytes", v.len())),
                Ok(Some(Err(e))) => return Err(format!("subscriber on B: {e}")),
                Ok(None) => return Err("subscriber on B ended".into()),
                Err(_) => {}
            }
        }
    };
    let res = tokio::time::timeout(Duration::from_secs(12), fut).await;
    let took = t1.elapsed().as_millis();
    // … and also for the clients that queued up on A: through the connection that sent the *last* registrations
    let tn_b = TopicName::try_from(topic_b.as_str()).unwrap();
    let mut via_queued: Option<String> = None;
    if let (Ok(Ok(())), Some(qc)) = (&res, extra_conns.last()) {
        let probe = async {
            let (mut sb, r) = qc.open(Frame::RegisterSubscriber(SubscriberPayload { topic: tn_b.clone(), retention_policy: 0, operations: vec![] }), Duration::from_secs(8)).await.map_err(|e| format!("opening a subscriber on topic B: {e}"))?;
            if r != Some(Frame::Ok) {
                return Err(format!("subscriber registration on topic B answered {:?}", r));
            }
            let (mut pb, r) = qc.open(Frame::RegisterPublisher(selium_protocol::PublisherPayload { topic: tn_b.clone(), retention_policy: 0, operations: vec![] }), Duration::from_secs(8)).await.map_err(|e| format!("opening a publisher on topic B: {e}"))?;
            if r != Some(Frame::Ok) {
                return Err(format!("publisher registration on topic B answered {:?}", r));
            }
            for n in 0..40u8 {
                pb.send(Frame::Message(selium_protocol::MessagePayload { headers: None, message: bytes::Bytes::from(vec![b'Q', n]) })).await.map_err(|e| format!("send on B: {e}"))?;
                if let Ok(Some(Ok(Frame::Message(m)))) = tokio::time::timeout(Duration::from_millis(250), sb.next()).await {
                    if m.message.first() == Some(&b'Q') {
                        return Ok::<(), String>(());
                    }
                }
            }
            Err("no round trip on topic B within 10 s".into())
        };
        match tokio::time::timeout(Duration::from_secs(30), probe).await {
            Ok(Ok(())) => {}
            Ok(Err(e)) => via_queued = Some(e),
            Err(_) => via_queued = Some("probe did not finish within 30 s".into()),
        }
    }
    // … and not only for the one topic B: "a different topic" means any of them, however the server happens to group,
    // hash or shard its topics. 270 further topics, each with a fresh subscriber + publisher, one round trip each.
    let mut one_of_many: Option<String> = None;
    if let (Ok(Ok(())), None) = (&res, &via_queued) {
        let sweep = async {
            let mut keep = vec![];
            let mut k = 0u32;
            for _ in 0..6 {
                let conn = raw_connect(addr, &certs).await.map_err(|e| format!("INCONCLUSIVE connect: {e}"))?;
                for _ in 0..45 {
                    k += 1;
                    let name = format!("/other{}x{}/topic-{}", id, k, (k * 7919) % 1000 + 100);
                    let tn = TopicName::try_from(name.as_str()).map_err(|e| format!("INCONCLUSIVE topic name {name}: {e}"))?;
                    let (mut sb, r) = conn.open(Frame::RegisterSubscriber(SubscriberPayload { topic: tn.clone(), retention_policy: 0, operations: vec![] }), Duration::from_secs(8)).await.map_err(|e| format!("topic {name} (#{k} of 270 other topics): opening a subscriber: {e}"))?;
                    if r != Some(Frame::Ok) {
                        return Err(format!("topic {name} (#{k} of 270 other topics): subscriber registration answered {:?}", r));
                    }
                    let (mut pb, r) = conn.open(Frame::RegisterPublisher(selium_protocol::PublisherPayload { topic: tn.clone(), retention_policy: 0, operations: vec![] }), Duration::from_secs(8)).await.map_err(|e| format!("topic {name} (#{k} of 270 other topics): opening a publisher: {e}"))?;
                    if r != Some(Frame::Ok) {
                        return Err(format!("topic {name} (#{k} of 270 other topics): publisher registration answered {:?}", r));
                    }
                    let mut through = false;
                    for n in 0..16u8 {
                        pb.send(Frame::Message(selium_protocol::MessagePayload { headers: None, message: bytes::Bytes::from(vec![b'M', n]) })).await.map_err(|e| format!("topic {name}: send: {e}"))?;
                        if let Ok(Some(Ok(Frame::Message(m)))) = tokio::time::timeout(Duration::from_millis(250), sb.next()).await {
                            if m.message.first() == Some(&b'M') {
                                through = true;
                                break;
                            }
                        }
                    }
                    if !through {
                        return Err(format!("topic {name} (#{k} of 270 other topics tried): both registrations were answered Ok, but none of 16 messages reached the subscriber within 4 s", ));
                    }
                    keep.push((sb, pb));
                }
                std::mem::forget(conn);
            }
            Ok::<(), String>(())
        };
        match tokio::time::timeout(Duration::from_secs(150), sweep).await {
            Ok(Ok(())) => {}
            Ok(Err(e)) => one_of_many = Some(e),
            Err(_) => one_of_many = Some("INCONCLUSIVE the sweep over 270 other topics did not finish within 150 s".into()),
        }
    }
    reader.abort();
    server.stop();
    drop(queued_streams);
    drop(extra_conns);
    if let Some(e) = one_of_many {
        if let Some(why) = e.strip_prefix("INCONCLUSIVE ") {
            return Out::Inconclusive(why.to_string());
        }
        return Out::Violated(
            "other-topic-blocked/one-of-many-topics".into(),
            format!("with topic A stalled and {} registrations queued on it ({}), topic B worked, but not every other topic did: {}", q, if before_stall { "sent before the stall" } else { "sent after the stall" }, e),
        );
    }
    if let Some(e) = via_queued {
        return Out::Violated(
            "other-topic-blocked/through-queued-connection".into(),
            format!(
                "with topic A stalled and {} registrations queued on it ({}), fresh clients could use topic B, but a client whose connection carries the last of the queued registrations could not: {}",
                q,
                if before_stall { "sent before the stall" } else { "sent after the stall" },
                e
            ),
        );
    }
    match res {
        Ok(Ok(())) => Out::Held { b_roundtrip_ms: took, queued_ok },
        Ok(Err(e)) if e.starts_with("TRAFFIC-LEAK") => Out::Violated("traffic-leak".into(), e),
        Ok(Err(e)) => Out::Violated(
            "other-topic-failed".into(),
            format!("with topic A stalled and {} registrations queued on it ({}), topic B could not be used: {}", q, if before_stall { "sent before the stall" } else { "sent after the stall" }, e),
        ),
        Err(_) => Out::Violated(
            "other-topic-blocked".into(),
            format!(
                "with topic A stalled (publisher blocked after {} × 32 KiB, healthy subscriber stopped at {} items) and {} registrations queued on it ({}), a fresh subscriber + publisher on topic B did not complete a round trip within 12 s",
                sent,
                b,
                q,
                if before_stall { "sent before the stall" } else { "sent after the stall" }
            ),
        ),
    }
}


/// The peers that queued up on the stalled topic vanish *abruptly* (their packets stop; no close is ever sent — a
/// killed client, a cut network). The server only notices through its idle timeout (2 s here). Topic B must work
/// afterwards as before.
async fn queued_peers_vanish(q: usize, id: u64) -> Out {
    let certs = match gen_certs() {
        Ok(c) => c,
        Err(e) => return Out::Inconclusive(format!("certs: {e}")),
    };
    let server = {
        let args = server_args(&certs, "127.0.0.1:0", 2000);
        match selium_server::server::Server::try_from(args) {
            Ok(sv) => {
                let addr = sv.addr().unwrap();
                let task = tokio::spawn(async move {
                    let _ = sv.listen().await;
                });
                (addr, task)
            }
            Err(e) => return Out::Inconclusive(format!("server: {e}")),
        }
    };
    let addr = server.0;
    let topic_a = format!("/stallv{}/topic-a", id);
    let topic_b = format!("/freev{}/topic-b", id);
    let tn_a = TopicName::try_from(topic_a.as_str()).unwrap();
    // the stalled peer reads nothing, but its connection must outlive the server's 2 s idle timeout: PINGs every 300 ms
    let stall_cfg = match (|| -> anyhow::Result<quinn::ClientConfig> { raw_client_config_full(&read_der(&certs.client_ca())?, ClientIdentity::Cert(read_der(&certs.client_cert())?, read_der(&certs.client_key())?), None, Duration::from_millis(300)) })() {
        Ok(c) => c,
        Err(e) => return Out::Inconclusive(format!("client config: {e}")),
    };
    let stall_conn = match raw_connect_with(addr, stall_cfg).await {
        Ok(c) => c,
        Err(e) => return Out::Inconclusive(format!("raw connect: {e}")),
    };
    let (_stalled, r) = match stall_conn.open(Frame::RegisterSubscriber(SubscriberPayload { topic: tn_a.clone(), retention_policy: 0, operations: vec![] }), Duration::from_secs(10)).await {
        Ok(x) => x,
        Err(e) => return Out::Inconclusive(format!("stalled subscriber: {e}")),
    };
    if r != Some(Frame::Ok) {
        return Out::Inconclusive(format!("stalled subscriber answered {:?}", r));
    }
    let pc = match lib_client(&addr.to_string(), &certs, None).await {
        Ok(c) => c,
        Err(e) => return Out::Inconclusive(format!("connect: {e}")),
    };
    let mut flooder = match pc.publisher(&topic_a).with_encoder(BytesCodec).open().await {
        Ok(p) => p,
        Err(e) => return Out::Inconclusive(format!("flooding publisher: {e}")),
    };
    let chunk = vec![0x42u8; 32 * 1024];
    let t0 = Instant::now();
    let mut blocked = false;
    let mut sent = 0u64;
    while t0.elapsed() < Duration::from_secs(40) {
        match tokio::time::timeout(Duration::from_millis(1500), flooder.send(chunk.clone())).await {
            Ok(Ok(())) => sent += 1,
            Ok(Err(e)) => return Out::Inconclusive(format!("flooding publisher failed: {e}")),
            Err(_) => {
                blocked = true;
                break;
            }
        }
    }
    if !blocked {
        return Out::Inconclusive(format!("precondition not reached: publisher never blocked after {} × 32 KiB", sent));
    }
    // q registrations queue up on A through a relay …
    let relay = match super::c12::Relay::start(addr).await {
        Ok(r) => r,
        Err(e) => return Out::Inconclusive(format!("relay: {e}")),
    };
    let mut conns = vec![];
    let mut streams = vec![];
    let mut left = q;
    while left > 0 {
        let c = match raw_connect(relay.addr, &certs).await {
            Ok(c) => c,
            Err(_) => break,
        };
        let batch = left.min(80);
        let mut unanswered = 0;
        for _ in 0..batch {
            match c.open(Frame::RegisterSubscriber(SubscriberPayload { topic: tn_a.clone(), retention_policy: 0, operations: vec![] }), Duration::from_secs(3)).await {
                Ok((s2, _)) => streams.push(s2),
                Err(_) => {
                    unanswered += 1;
                    if unanswered >= 2 {
                        break;
                    }
                }
            }
        }
        left -= batch;
        conns.push(c);
    }
    if std::env::var("VERIF_C17_DEBUG").is_ok() {
        eprintln!("vanish: q={} conns={} streams answered={} flood sent={}", q, conns.len(), streams.len(), sent);
    }
    // … and vanish: nothing of theirs reaches the server any more, nothing of the server's reaches them
    relay.blackhole_existing();
    tokio::time::sleep(Duration::from_millis(4200)).await;
    let t1 = Instant::now();
    let fut = async {
        let cb = lib_client(&addr.to_string(), &certs, None).await.map_err(|e| format!("connect for topic B: {e}"))?;
        let mut sub = cb.subscriber(&topic_b).with_decoder(BytesCodec).open().await.map_err(|e| format!("open subscriber on B: {e}"))?;
        let cb2 = lib_client(&addr.to_string(), &certs, None).await.map_err(|e| format!("connect for topic B: {e}"))?;
        let mut publ = cb2.publisher(&topic_b).with_encoder(BytesCodec).open().await.map_err(|e| format!("open publisher on B: {e}"))?;
        let mut n = 0u8;
        loop {
            n = n.wrapping_add(1);
            publ.send(vec![b'B', n]).await.map_err(|e| format!("send on B: {e}"))?;
            if let Ok(Some(Ok(v))) = tokio::time::timeout(Duration::from_millis(250), sub.next()).await {
                if v.first() == Some(&b'B') {
                    return Ok::<(), String>(());
                }
            }
        }
    };
    let res = tokio::time::timeout(Duration::from_secs(12), fut).await;
    let took = t1.elapsed().as_millis();
    // the stall must have lasted: the subscriber that does not read is still connected
    let stall_ended = stall_conn.conn.close_reason();
    relay.stop();
    server.1.abort();
    drop(streams);
    drop(conns);
    if let Some(why) = stall_ended {
        return Out::Inconclusive(format!("precondition not kept: the stalled subscriber's connection ended during the scenario ({})", why));
    }
    match res {
        Ok(Ok(())) => Out::Held { b_roundtrip_ms: took, queued_ok: q },
        Ok(Err(e)) => Out::Violated("other-topic-failed/after-queued-peers-vanished".into(), format!("topic A stalled, {} registrations queued on it, then the queued peers vanished without closing (server idle timeout 2 s, 4.2 s waited): topic B could not be used: {}", q, e)),
        Err(_) => Out::Violated("other-topic-blocked/after-queued-peers-vanished".into(), format!("topic A stalled, {} registrations queued on it, then the queued peers vanished without closing: no round trip on topic B within 12 s", q)),
    }
}

/// A peer of topic A that gives the server no flow-control credit at all registers on A with the *other*
/// messaging pattern: the server has to write a refusal that this peer never takes delivery of. Topic B
/// must still work.
async fn zero_window_refusal(id: u64) -> Out {
    let certs = match gen_certs() {
        Ok(c) => c,
        Err(e) => return Out::Inconclusive(format!("certs: {e}")),
    };
    let server = match start_server(&certs) {
        Ok(s) => s,
        Err(e) => return Out::Inconclusive(format!("server: {e}")),
    };
    let addr = server.addr;
    let topic_a = format!("/stallz{}/topic-a", id);
    let topic_b = format!("/freez{}/topic-b", id);
    let tn_a = TopicName::try_from(topic_a.as_str()).unwrap();
    // topic A exists as a pub/sub topic
    let normal = match raw_connect(addr, &certs).await {
        Ok(c) => c,
        Err(e) => return Out::Inconclusive(format!("connect: {e}")),
    };
    let (_keep, r) = match normal.open(Frame::RegisterSubscriber(SubscriberPayload { topic: tn_a.clone(), retention_policy: 0, operations: vec![] }), Duration::from_secs(8)).await {
        Ok(x) => x,
        Err(e) => return Out::Inconclusive(format!("subscriber on A: {e}")),
    };
    if r != Some(Frame::Ok) {
        return Out::Inconclusive(format!("subscriber on A answered {:?}", r));
    }
    // hostile peer: stream receive window 0 — the server can never write a byte to it
    let mut cfg = match raw_client_config(&read_der(&certs.client_ca()).unwrap(), ClientIdentity::Cert(read_der(&certs.client_cert()).unwrap(), read_der(&certs.client_key()).unwrap())) {
        Ok(c) => c,
        Err(e) => return Out::Inconclusive(format!("config: {e}")),
    };
    let mut transport = quinn::TransportConfig::default();
    transport.stream_receive_window(quinn::VarInt::from_u32(0));
    transport.keep_alive_interval(Some(Duration::from_secs(2)));
    cfg.transport_config(Arc::new(transport));
    let hostile = match raw_connect_with(addr, cfg).await {
        Ok(c) => c,
        Err(e) => return Out::Inconclusive(format!("hostile connect: {e}")),
    };
    let mut hostile_streams = vec![];
    for kind in 0..6 {
        let Ok(mut s) = BiStream::try_from_connection(&hostile.conn).await else { break };
        use selium_protocol::{ReplierPayload, RequestorPayload};
        // mismatching registrations (req/rep on a pub/sub topic), and a matching one for good measure
        let f = match kind % 3 {
            0 => Frame::RegisterRequestor(RequestorPayload { topic: tn_a.clone() }),
            1 => Frame::RegisterReplier(ReplierPayload { topic: tn_a.clone() }),
            _ => Frame::RegisterSubscriber(SubscriberPayload { topic: tn_a.clone(), retention_policy: 0, operations: vec![] }),
        };
        let _ = tokio::time::timeout(Duration::from_secs(2), s.send(f)).await;
        hostile_streams.push(s);
    }
    tokio::time::sleep(Duration::from_millis(400)).await;
    let t1 = Instant::now();
    let fut = async {
        let cb = lib_client(&addr.to_string(), &certs, None).await.map_err(|e| format!("connect for topic B: {e}"))?;
        let mut sub = cb.subscriber(&topic_b).with_decoder(BytesCodec).open().await.map_err(|e| format!("open subscriber on B: {e}"))?;
        let mut publ = cb.publisher(&topic_b).with_encoder(BytesCodec).open().await.map_err(|e| format!("open publisher on B: {e}"))?;
        let mut n = 0u8;
        loop {
            n = n.wrapping_add(1);
            publ.send(vec![b'B', n]).await.map_err(|e| format!("send on B: {e}"))?;
            if let Ok(Some(Ok(_))) = tokio::time::timeout(Duration::from_millis(250), sub.next()).await {
                return Ok::<(), String>(());
            }
        }
    };
    let res = tokio::time::timeout(Duration::from_secs(12), fut).await;
    let took = t1.elapsed().as_millis();
    server.stop();
    drop(hostile_streams);
    match res {
        Ok(Ok(())) => Out::Held { b_roundtrip_ms: took, queued_ok: 0 },
        Ok(Err(e)) => Out::Violated("other-topic-failed/zero-window-refusal".into(), format!("while a peer that grants the server no flow-control credit was being refused on topic A, topic B could not be used: {}", e)),
        Err(_) => Out::Violated(
            "other-topic-blocked/zero-window-refusal".into(),
            "a peer with a zero stream receive window registered on pub/sub topic A as requestor/replier (the refusal can never be delivered to it); afterwards a fresh subscriber + publisher on topic B did not complete a round trip within 12 s".into(),
        ),
    }
}

/// The stalled topic's publishers all live on one client connection (a publisher `duplicate()`d many times):
/// that very client must still be able to use another topic through the same connection.
/// `finish_blocked`: one of the blocked publishers is being finished (its `finish()` cannot complete while the topic is
/// stalled and the application keeps waiting for it) when the same client turns to topic B
/// `outage`: after the stall, 110 more registrations queue up on topic A, then the client loses its connection: its
/// publishers on A try to re-register (behind that queue) while the client turns to topic B
async fn same_connection_publishers(n_pubs: usize, id: u64, finish_blocked: bool) -> Out {
    same_connection_publishers_x(n_pubs, id, finish_blocked, false).await
}

async fn same_connection_publishers_x(n_pubs: usize, id: u64, finish_blocked: bool, outage: bool) -> Out {
    let certs = match gen_certs() {
        Ok(c) => c,
        Err(e) => return Out::Inconclusive(format!("certs: {e}")),
    };
    let server = match start_server(&certs) {
        Ok(s) => s,
        Err(e) => return Out::Inconclusive(format!("server: {e}")),
    };
    let addr = server.addr;
    let topic_a = format!("/stallc{}/topic-a", id);
    let topic_b = format!("/freec{}/topic-b", id);
    let tn_a = TopicName::try_from(topic_a.as_str()).unwrap();
    let stall_conn = match raw_connect(addr, &certs).await {
        Ok(c) => c,
        Err(e) => return Out::Inconclusive(format!("raw connect: {e}")),
    };
    let (_stalled, r) = match stall_conn.open(Frame::RegisterSubscriber(SubscriberPayload { topic: tn_a.clone(), retention_policy: 0, operations: vec![] }), Duration::from_secs(10)).await {
        Ok(x) => x,
        Err(e) => return Out::Inconclusive(format!("stalled subscriber: {e}")),
    };
    if r != Some(Frame::Ok) {
        return Out::Inconclusive(format!("stalled subscriber answered {:?}", r));
    }
    let x = match lib_client(&addr.to_string(), &certs, None).await {
        Ok(c) => c,
        Err(e) => return Out::Inconclusive(format!("connect: {e}")),
    };
    let first = match x.publisher(&topic_a).with_encoder(BytesCodec).open().await {
        Ok(p) => p,
        Err(e) => return Out::Inconclusive(format!("publisher: {e}")),
    };
    let mut pubs = vec![];
    for _ in 1..n_pubs {
        match first.duplicate().await {
            Ok(p) => pubs.push(p),
            Err(e) => return Out::Inconclusive(format!("duplicate: {e}")),
        }
    }
    pubs.push(first);
    // every publisher floods until it blocks
    let chunk = vec![0x43u8; 64 * 1024];
    let mut blocked = 0;
    let mut total = 0u64;
    let mut tasks = vec![];
    for mut p in pubs {
        let chunk = chunk.clone();
        tasks.push(tokio::spawn(async move {
            let mut n = 0u64;
            let t0 = Instant::now();
            while t0.elapsed() < Duration::from_secs(40) {
                match tokio::time::timeout(Duration::from_millis(1500), p.send(chunk.clone())).await {
                    Ok(Ok(())) => n += 1,
                    Ok(Err(_)) => return (p, n, false),
                    Err(_) => return (p, n, true),
                }
            }
            (p, n, false)
        }));
    }
    let mut keep = vec![];
    for t in tasks {
        if let Ok((p, n, b)) = t.await {
            total += n;
            if b {
                blocked += 1;
            }
            keep.push(p);
        }
    }
    if blocked < n_pubs {
        return Out::Inconclusive(format!("precondition not reached: only {} of {} publishers blocked", blocked, n_pubs));
    }
    let mut queued_conns = vec![];
    let mut queued_streams = vec![];
    let mut pokes = vec![];
    if outage {
        for _ in 0..2 {
            let c = match raw_connect(addr, &certs).await {
                Ok(c) => c,
                Err(e) => return Out::Inconclusive(format!("raw connect: {e}")),
            };
            let mut unanswered = 0;
            for _ in 0..55 {
                match c.open(Frame::RegisterSubscriber(SubscriberPayload { topic: tn_a.clone(), retention_policy: 0, operations: vec![] }), Duration::from_secs(3)).await {
                    Ok((s, _)) => queued_streams.push(s),
                    Err(_) => {
                        unanswered += 1;
                        if unanswered >= 2 {
                            break;
                        }
                    }
                }
            }
            queued_conns.push(c);
        }
        x.verif_close_connection().await;
        // the client's publishers on A notice the loss as soon as they are used again
        for mut p in keep.drain(..) {
            let chunk = chunk.clone();
            pokes.push(tokio::spawn(async move {
                let _ = p.send(chunk).await;
                p
            }));
        }
        tokio::time::sleep(Duration::from_millis(600)).await;
    }
    let finishing = if finish_blocked {
        let h = keep.pop().map(|p| {
            tokio::spawn(async move {
                let _ = p.finish().await;
            })
        });
        tokio::time::sleep(Duration::from_millis(300)).await;
        h
    } else {
        None
    };
    // topic B through the SAME client connection
    let t1 = Instant::now();
    let fut = async {
        // (after an outage, open() fails until one of the client's streams has re-established the shared connection —
        // that is how the library works; the application retries)
        let mut sub = loop {
            match x.subscriber(&topic_b).with_decoder(BytesCodec).open().await {
                Ok(s) => break s,
                Err(_) if outage => tokio::time::sleep(Duration::from_millis(100)).await,
                Err(e) => return Err(format!("open subscriber on B: {e}")),
            }
        };
        let mut publ = loop {
            match x.publisher(&topic_b).with_encoder(BytesCodec).open().await {
                Ok(p) => break p,
                Err(_) if outage => tokio::time::sleep(Duration::from_millis(100)).await,
                Err(e) => return Err(format!("open publisher on B: {e}")),
            }
        };
        let mut n = 0u8;
        loop {
            n = n.wrapping_add(1);
            publ.send(vec![b'B', n]).await.map_err(|e| format!("send on B: {e}"))?;
            if let Ok(Some(Ok(_))) = tokio::time::timeout(Duration::from_millis(250), sub.next()).await {
                return Ok::<(), String>(());
            }
        }
    };
    let res = tokio::time::timeout(Duration::from_secs(12), fut).await;
    let took = t1.elapsed().as_millis();
    server.stop();
    drop(keep);
    if let Some(h) = finishing {
        h.abort();
    }
    for h in pokes {
        h.abort();
    }
    drop(queued_streams);
    drop(queued_conns);
    let suffix = if finish_blocked { "/while-finishing-a-blocked-publisher" } else if outage { "/after-an-outage-of-the-client" } else { "" };
    match res {
        Ok(Ok(())) => Out::Held { b_roundtrip_ms: took, queued_ok: 0 },
        Ok(Err(e)) => Out::Violated(format!("other-topic-failed/same-connection{}", suffix), format!("{} publisher streams of the stalled topic on one client connection ({} × 64 KiB accepted before they blocked); the same client could not use topic B: {}", n_pubs, total, e)),
        Err(_) => Out::Violated(
            format!("other-topic-blocked/same-connection{}", suffix),
            format!("{} publisher streams of the stalled topic on one client connection ({} × 64 KiB accepted before they all blocked){}; the same client did not complete open + round trip on topic B through that connection within 12 s", n_pubs, total, if finish_blocked { ", finish() of one of them in progress" } else { "" }),
        ),
    }
}

pub fn run(rep: &mut StageReport, tier: &str, _seed: u64) {
    let thorough = tier == "thorough";
    let mut plan: Vec<(usize, bool)> = if thorough {
        let mut v = vec![];
        for q in [0usize, 1, 50, 99, 100, 101, 102, 103, 150, 250, 400, 700, 1500] {
            v.push((q, false));
            if q > 0 && q <= 150 {
                v.push((q, true));
            }
        }
        v
    } else {
        vec![(0, false), (105, false), (160, false), (60, true), (700, false)]
    };
    if thorough {
        plan.push((130, false));
    }
    let mark = panic_mark();
    for (i, (q, before)) in plan.iter().enumerate() {
        rep.evaluations += 1;
        // a fresh runtime per scenario: everything (server tasks, stalled peers) dies with it
        let rt = runtime(4);
        let out = rt.block_on(async { tokio::time::timeout(Duration::from_secs(330), scenario(*q, *before, i as u64 + 1)).await });
        drop(rt);
        match out {
            Ok(Out::Held { b_roundtrip_ms, queued_ok }) => {
                rep.distinct.insert(crate::common::mix(*q as u64, *before as u64));
                rep.sample(json!({"queued_registrations_on_stalled_topic": q, "sent": if *before { "before the stall" } else { "after the stall" }, "registrations_answered_ok": queued_ok, "topic_B_round_trip_ms": b_roundtrip_ms as u64}));
                rep.count("stall_established", 1);
            }
            Ok(Out::Violated(sig, detail)) => {
                let replay = write_replay("C17", &sig, *q as u64, json!({"property": "C17", "q": q, "before_stall": before, "detail": detail}));
                rep.violation(Violation { signature: format!("C17/server/{}", sig), detail, replay });
            }
            Ok(Out::Inconclusive(why)) => rep.inconclusive(&why),
            Err(_) => rep.inconclusive("watchdog: scenario did not finish within 330 s"),
        }
    }
    for k in 0..(if thorough { 5u64 } else { 1 }) {
        rep.evaluations += 1;
        let rt = runtime(4);
        let out = rt.block_on(async { tokio::time::timeout(Duration::from_secs(90), zero_window_refusal(100 + k)).await });
        drop(rt);
        match out {
            Ok(Out::Held { b_roundtrip_ms, .. }) => {
                rep.distinct.insert(crate::common::mix(0x2E80, k));
                rep.sample(json!({"scenario": "zero-window peer refused on topic A (pattern mismatch)", "topic_B_round_trip_ms": b_roundtrip_ms as u64}));
            }
            Ok(Out::Violated(sig, detail)) => {
                let replay = write_replay("C17", &sig, k, json!({"property": "C17", "detail": detail}));
                rep.violation(Violation { signature: format!("C17/server/{}", sig), detail, replay });
            }
            Ok(Out::Inconclusive(why)) => rep.inconclusive(&why),
            Err(_) => rep.inconclusive("watchdog: zero-window scenario did not finish within 90 s"),
        }
    }
    for (k, q) in (if thorough { vec![160usize, 300] } else { vec![160usize] }).into_iter().enumerate() {
        rep.evaluations += 1;
        let rt = runtime(6);
        let out = rt.block_on(async { tokio::time::timeout(Duration::from_secs(150), queued_peers_vanish(q, 300 + k as u64)).await });
        drop(rt);
        match out {
            Ok(Out::Held { b_roundtrip_ms, .. }) => {
                rep.distinct.insert(crate::common::mix(0x7A41, q as u64));
                rep.sample(json!({"scenario": format!("{} registrations queued on the stalled topic through a relay, then black-holed (no close); server idle timeout 2 s", q), "topic_B_round_trip_ms": b_roundtrip_ms as u64}));
            }
            Ok(Out::Violated(sig, detail)) => {
                let replay = write_replay("C17", &sig, q as u64, json!({"property": "C17", "detail": detail}));
                rep.violation(Violation { signature: format!("C17/server/{}", sig), detail, replay });
            }
            Ok(Out::Inconclusive(why)) => rep.inconclusive(&why),
            Err(_) => rep.inconclusive("watchdog: vanishing-peers scenario did not finish within 150 s"),
        }
    }
    for (k, (n_pubs, finishing)) in (if thorough { vec![(4usize, false), (10, false), (16, false), (1, true), (3, true), (10, true), (101, false), (103, false)] } else { vec![(10usize, false), (2, true), (101, false)] }).into_iter().enumerate() {
        rep.evaluations += 1;
        let rt = runtime(6);
        // (n_pubs > 100 encodes the outage variant with n_pubs − 100 publishers)
        let outage = n_pubs > 100;
        let n_pubs = if outage { n_pubs - 100 } else { n_pubs };
        let out = rt.block_on(async { tokio::time::timeout(Duration::from_secs(150), same_connection_publishers_x(n_pubs, 200 + k as u64, finishing, outage)).await });
        drop(rt);
        match out {
            Ok(Out::Held { b_roundtrip_ms, .. }) => {
                rep.distinct.insert(crate::common::mix(0x5A3E + finishing as u64 + 2 * outage as u64, n_pubs as u64));
                rep.sample(json!({"scenario": format!("{} blocked publisher streams of the stalled topic on one client connection{}; topic B used through the same connection", n_pubs, if finishing { ", one of them being finished" } else if outage { ", 110 registrations queued behind them, then the client's connection was cut" } else { "" }), "topic_B_round_trip_ms": b_roundtrip_ms as u64}));
            }
            Ok(Out::Violated(sig, detail)) => {
                let replay = write_replay("C17", &sig, n_pubs as u64, json!({"property": "C17", "detail": detail}));
                rep.violation(Violation { signature: format!("C17/server/{}", sig), detail, replay });
            }
            Ok(Out::Inconclusive(why)) => rep.inconclusive(&why),
            Err(_) => rep.inconclusive("watchdog: same-connection scenario did not finish within 150 s"),
        }
    }
    for p in repo_panics_since(mark) {
        rep.violation(Violation { signature: format!("C17/server/panic/{}", crate::routersim::exec::normalise_location(&p.location)), detail: format!("panic at {}: {}", p.location, p.message), replay: String::new() });
    }
    rep.max_samples = 12;
    rep.rule = "one evaluation = one scenario (q registrations queued on the stalled topic, sent before or after the stall): the stall is established (publisher blocked, healthy subscriber stopped) before topic B is exercised; topic B must complete open + round trip within 12 s (normal: milliseconds); distinct = (q, order)".into();
}

//! C07 (L3 part) — the server applies the topic-name rule to names arriving on the wire, and two
//! different names never share traffic.

use super::*;
use crate::common::{write_replay, Rng, StageReport, Violation};
use crate::wiregen::c07::{classify, Zone};
use bytes::Bytes;
use selium_protocol::error_codes::INVALID_TOPIC_NAME;
use selium_protocol::{MessagePayload, PublisherPayload, ReplierPayload, RequestorPayload, SubscriberPayload, TopicName};
use serde_json::json;

fn reg(kind: usize, t: TopicName) -> Frame {
    match kind {
        0 => Frame::RegisterPublisher(PublisherPayload { topic: t, retention_policy: 0, operations: vec![] }),
        1 => Frame::RegisterSubscriber(SubscriberPayload { topic: t, retention_policy: 0, operations: vec![] }),
        2 => Frame::RegisterReplier(ReplierPayload { topic: t }),
        _ => Frame::RegisterRequestor(RequestorPayload { topic: t }),
    }
}

pub fn run(rep: &mut StageReport, tier: &str, seed: u64) {
    let thorough = tier == "thorough";
    let rt = runtime(4);
    let mut rng = Rng::new(seed ^ 0x7C07);
    let certs = match gen_certs() {
        Ok(c) => c,
        Err(e) => {
            rep.inconclusive(&format!("certificate generation failed: {e}"));
            return;
        }
    };
    let mark = panic_mark();
    // (namespace, topic) pairs built with the unchecked constructor
    let mut pairs: Vec<(String, String)> = vec![];
    for (a, b) in [
        ("ab", "topic"), ("abc", "to"), ("", ""), ("abc", ""), ("", "abc"), ("a/b", "topic"), ("abc", "to/pic"), ("selium", "topic"), ("seliumx", "topic"), ("selium-1", "abc"),
        ("abc def", "topic"), ("abc", "top!c"), ("abc\n", "topic"), ("abc", "topic\0"), ("é", "topic"), ("abc", "\u{1F4A5}\u{1F4A5}\u{1F4A5}"), ("a.b", "c.d"), ("..", ".."), ("abc", "../etc"),
        ("x", "y"), ("abc", "def"), ("abc_1", "DEF-2"), ("Selium", "topic"), ("xselium", "topic"),
        // the reserved word is reserved for the *namespace*: as (the start of) a topic part it is legal
        ("tenant-a", "selium-metrics"), ("abc", "selium"), ("tenant-b", "seliumx"), ("def", "selium_1"),
    ] {
        pairs.push((a.to_string(), b.to_string()));
    }
    // letters outside ASCII (the statement's "letters"; the reference predicate tolerates either verdict for them, but
    // the server must give the *same* verdict as the parser): 2-, 3- and 4-byte letters at the length bounds
    for ch in ['é', '中', '𐐀', '𝒜', '𠀀'] {
        for (na, nb) in [(3usize, 3usize), (64, 64), (64, 63), (63, 64), (64, 3), (3, 64), (49, 48), (65, 3), (2, 3)] {
            pairs.push((std::iter::repeat(ch).take(na).collect(), std::iter::repeat(ch).take(nb).collect()));
        }
        pairs.push((format!("abcde{}", ch), "topic".to_string()));
        pairs.push((format!("seliu{}", ch), "topic".to_string()));
        pairs.push(("topic".to_string(), format!("abcde{}", ch)));
        pairs.push((format!("{}abcde", ch), format!("{}{}{}", ch, ch, ch)));
    }
    pairs.push(("x".repeat(64), "y".repeat(64)));
    pairs.push(("x".repeat(65), "y".repeat(3)));
    pairs.push(("x".repeat(3), "y".repeat(65)));
    pairs.push(("x".repeat(1000), "y".repeat(1000)));
    let n_rand = if thorough { 600 } else { 60 };
    let good = ['a', 'Z', '0', '_', '-'];
    let bad = [' ', '!', '/', '.', '\n', '\0', '$', ':', '\\', '"'];
    for _ in 0..n_rand {
        let mut mk = |rng: &mut Rng| -> String {
            let n = rng.range(1, 8) as usize;
            let mut s: String = (0..n).map(|_| *rng.pick(&good)).collect();
            if rng.pct(40) {
                let p = rng.usize(s.len() + 1);
                s.insert(p, *rng.pick(&bad));
            }
            s
        };
        let a = mk(&mut rng);
        let b = mk(&mut rng);
        pairs.push((a, b));
    }
    let mut second_pass_from = usize::MAX;
    let results = rt.block_on(async {
        let server = match start_server(&certs) {
            Ok(s) => s,
            Err(e) => return Err(format!("server start: {e}")),
        };
        let mut out: Vec<(String, String, usize, Zone, std::result::Result<Option<Frame>, String>)> = vec![];
        let mut conn = raw_connect(server.addr, &certs).await.map_err(|e| e.to_string())?;
        let mut opened = 0;
        for (i, (ns, tp)) in pairs.iter().enumerate() {
            let kind = i % 4;
            let zone = if ns.contains('/') || tp.contains('/') { Zone::MustReject } else { classify(&format!("/{}/{}", ns, tp)) };
            if opened >= 60 {
                conn = raw_connect(server.addr, &certs).await.map_err(|e| e.to_string())?;
                opened = 0;
            }
            opened += 1;
            let t = TopicName::_create_unchecked(ns, tp);
            let r = conn.open(reg(kind, t), Duration::from_secs(6)).await.map(|(_, f)| f).map_err(|e| e.to_string());
            out.push((ns.clone(), tp.clone(), kind, zone, r));
        }
        // ---- isolation: distinct valid names that collide under sloppy keying ---------------------------
        let mut groups: Vec<Vec<String>> = vec![
            vec!["/abc/defg", "/abcd/efg", "/abc/def", "/abcd/ef-g"],
            vec!["/Topic/name", "/topic/name", "/topic/Name", "/TOPIC/NAME"],
            vec!["/left/right", "/right/left", "/left-right/left", "/left/right-left"],
            vec!["/a-b/c_d", "/a_b/c-d", "/a-b/c-d", "/a_b/c_d"],
            vec!["/abc/abc", "/abcabc/abc", "/abc/abcabc", "/abc-/abc"],
        ]
        .into_iter()
        .map(|g| g.into_iter().map(|x| x.to_string()).collect())
        .collect();
        // names that are long in *bytes* (≤ 64 characters, but 65 … 256 bytes) and differ only late: whatever the server
        // keys its topics by must not stop at a byte count
        {
            let rep_ = |c: char, n: usize| -> String { std::iter::repeat(c).take(n).collect() };
            groups.push(vec![format!("/{}a/orders", rep_('é', 32)), format!("/{}b/orders", rep_('é', 32)), format!("/orders/{}a", rep_('é', 32)), format!("/orders/{}b", rep_('é', 32))]);
            groups.push(vec![format!("/{}x/{}", rep_('ü', 63), "top"), format!("/{}y/{}", rep_('ü', 63), "top"), format!("/top/{}x", rep_('ü', 63)), format!("/top/{}y", rep_('ü', 63))]);
            groups.push(vec![format!("/{}1/日本語", rep_('日', 63)), format!("/{}2/日本語", rep_('日', 63)), format!("/{}1{}/日本語", rep_('日', 21), rep_('本', 10)), format!("/{}2{}/日本語", rep_('日', 21), rep_('本', 10))]);
            groups.push(vec![format!("/{}a/{}", rep_('\u{10400}', 16), rep_('\u{10400}', 3)), format!("/{}b/{}", rep_('\u{10400}', 16), rep_('\u{10400}', 3)), format!("/{}/{}a", rep_('\u{10400}', 3), rep_('\u{10400}', 63)), format!("/{}/{}b", rep_('\u{10400}', 3), rep_('\u{10400}', 63))]);
        }
        let n_groups = groups.len() as u64;
        let mut leaks: Vec<String> = vec![];
        let mut iso_msgs = 0u64;
        for g in &groups {
            let c = raw_connect(server.addr, &certs).await.map_err(|e| e.to_string())?;
            let mut subs = vec![];
            let mut pubs = vec![];
            for name in g {
                let t = TopicName::try_from(name.as_str()).map_err(|e| format!("{name}: {e}"))?;
                let (s, r) = c.open(reg(1, t.clone()), Duration::from_secs(6)).await.map_err(|e| e.to_string())?;
                if let Some(Frame::Error(e)) = &r {
                    // nobody else uses this name: a refusal (typically "topic exists with the other pattern") means the
                    // server took it for another name's topic
                    leaks.push(format!("the valid name {} ({} bytes), used by nobody else on this server, was refused as a subscriber with error code {} ({}): it is being taken for another name's topic", name, name.len(), e.code, String::from_utf8_lossy(&e.message)));
                    continue;
                }
                if r != Some(Frame::Ok) {
                    return Err(format!("isolation: subscriber on {} answered {:?}", name, r));
                }
                subs.push(s);
                let (p, r) = c.open(reg(0, t), Duration::from_secs(6)).await.map_err(|e| e.to_string())?;
                if r != Some(Frame::Ok) {
                    return Err(format!("isolation: publisher on {} answered {:?}", name, r));
                }
                pubs.push(p);
            }
            if subs.len() != g.len() {
                continue; // (a refusal has been recorded above)
            }
            // every publisher sends ids tagged with its own name, concurrently; repeat until every
            // subscriber has seen its own topic's traffic (registration took effect)
            let mut seen_own = vec![false; g.len()];
            for round in 0..40 {
                for (i, p) in pubs.iter_mut().enumerate() {
                    let body = format!("{}|{}", g[i], round);
                    let _ = p.send(Frame::Message(MessagePayload { headers: None, message: Bytes::from(body) })).await;
                    iso_msgs += 1;
                }
                for (i, s) in subs.iter_mut().enumerate() {
                    while let Ok(Some(Ok(Frame::Message(m)))) = tokio::time::timeout(Duration::from_millis(30), s.next()).await {
                        let text = String::from_utf8_lossy(&m.message).to_string();
                        let origin = text.split('|').next().unwrap_or("");
                        if origin == g[i].as_str() {
                            seen_own[i] = true;
                        } else {
                            leaks.push(format!("subscriber of {} received a message published on {}", g[i], origin));
                        }
                    }
                }
                if seen_own.iter().all(|x| *x) && round >= 6 {
                    break;
                }
            }
            if !seen_own.iter().all(|x| *x) {
                return Err("isolation: precondition not reached (a subscriber never saw its own topic's traffic)".into());
            }
        }
        // ---- second pass: the verdict on a name must not depend on what the server has accepted before ----
        // every rejected name again, plus names recombined from the parts of names that were accepted
        let accepted: Vec<(String, String)> = out.iter().filter(|x| matches!(x.4, Ok(Some(Frame::Ok)))).map(|x| (x.0.clone(), x.1.clone())).collect();
        let mut second: Vec<(String, String)> = out.iter().filter(|x| x.3 == Zone::MustReject).map(|x| (x.0.clone(), x.1.clone())).collect();
        for (a, b) in &accepted {
            second.push((b.clone(), a.clone()));
        }
        let mut parts: Vec<String> = accepted.iter().flat_map(|(a, b)| [a.clone(), b.clone()]).filter(|p| p.to_lowercase().contains("selium") || p.len() <= 4).collect();
        parts.sort();
        parts.dedup();
        parts.truncate(14);
        for a in &parts {
            for b in &parts {
                second.push((a.clone(), b.clone()));
            }
        }
        second.sort();
        second.dedup();
        let first_pass = out.len();
        for (i, (ns, tp)) in second.iter().enumerate() {
            let kind = (i + 1) % 4;
            let zone = if ns.contains('/') || tp.contains('/') { Zone::MustReject } else { classify(&format!("/{}/{}", ns, tp)) };
            if opened >= 60 {
                conn = raw_connect(server.addr, &certs).await.map_err(|e| e.to_string())?;
                opened = 0;
            }
            opened += 1;
            let t = TopicName::_create_unchecked(ns, tp);
            let r = conn.open(reg(kind, t), Duration::from_secs(6)).await.map(|(_, f)| f).map_err(|e| e.to_string());
            out.push((ns.clone(), tp.clone(), kind, zone, r));
        }
        second_pass_from = first_pass;
        server.stop();
        Ok((out, leaks, iso_msgs, n_groups))
    });
    let (out, leaks, iso_msgs, n_groups) = match results {
        Ok(x) => x,
        Err(e) => {
            rep.inconclusive(&e);
            return;
        }
    };
    let mut zone_counts = [0u64; 3];
    for (i, (ns, tp, kind, zone, r)) in out.into_iter().enumerate() {
        rep.evaluations += 1;
        zone_counts[zone as usize] += 1;
        let kinds = ["publisher", "subscriber", "replier", "requestor"];
        let verdict: Option<(String, String)> = match (&zone, &r) {
            (Zone::MustReject, Ok(Some(Frame::Error(e)))) if e.code == INVALID_TOPIC_NAME => None,
            (Zone::MustReject, Ok(Some(Frame::Error(e)))) => Some(("wrong-error-code".into(), format!("invalid wire name ({:?},{:?}) registered as {}: refused with code {} instead of the invalid-topic code", ns, tp, kinds[kind], e.code))),
            (Zone::MustReject, Ok(Some(Frame::Ok))) => Some(("invalid-name-accepted".into(), format!("invalid wire name ({:?},{:?}) registered as {}: the server answered Ok and created the topic", ns, tp, kinds[kind]))),
            (Zone::MustReject, other) => Some(("invalid-name-not-answered".into(), format!("invalid wire name ({:?},{:?}) registered as {}: no invalid-topic error, got {:?}", ns, tp, kinds[kind], other))),
            (Zone::MustAccept, Ok(Some(Frame::Ok))) => None,
            // refused because the topic already exists with the other messaging pattern: the name itself passed
            (Zone::MustAccept, Ok(Some(Frame::Error(e)))) if e.code == selium_protocol::error_codes::TOPIC_KIND_MISMATCH => None,
            (Zone::MustAccept, other) => Some(("valid-name-refused".into(), format!("valid wire name ({:?},{:?}) registered as {}: got {:?}", ns, tp, kinds[kind], other))),
            // tolerated zone: either verdict satisfies the grammar clause, but "the server applies the same rule": its
            // verdict must be the parser's
            (Zone::Tolerated, Ok(Some(Frame::Ok))) | (Zone::Tolerated, Ok(Some(Frame::Error(_)))) => {
                let parser_accepts = TopicName::try_from(format!("/{}/{}", ns, tp).as_str()).is_ok();
                let server_accepts = match &r {
                    Ok(Some(Frame::Ok)) => true,
                    Ok(Some(Frame::Error(e))) if e.code == selium_protocol::error_codes::TOPIC_KIND_MISMATCH => true,
                    _ => false,
                };
                if parser_accepts == server_accepts {
                    None
                } else {
                    Some(("server-and-parser-disagree".into(), format!("wire name ({:?},{:?}) ({} + {} bytes) registered as {}: TopicName::try_from {} it, the server answered {}", ns, tp, ns.len(), tp.len(), kinds[kind], if parser_accepts { "accepts" } else { "rejects" }, match &r { Ok(Some(Frame::Ok)) => "Ok".to_string(), Ok(Some(Frame::Error(e))) => format!("Error(code {})", e.code), o => format!("{:?}", o) })))
                }
            }
            (Zone::Tolerated, other) => Some(("name-not-answered".into(), format!("wire name ({:?},{:?}): got {:?}", ns, tp, other))),
        };
        match verdict {
            None => {
                rep.distinct.insert(crate::common::fnv(format!("{}\0{}\0{}", ns, tp, kind).as_bytes()));
                if i % 17 == 3 {
                    rep.sample(json!({"namespace": ns, "topic": tp, "registered_as": kinds[kind], "zone": format!("{:?}", zone), "first_reply": match r { Ok(Some(Frame::Ok)) => "Ok".to_string(), Ok(Some(Frame::Error(e))) => format!("Error(code {})", e.code), o => format!("{:?}", o) }}));
                }
            }
            Some((sig, detail)) => {
                let (sig, detail) = if i >= second_pass_from { (format!("{}/after-other-registrations", sig), format!("{} — second pass, after the server had accepted other names (among them names made of the same parts)", detail)) } else { (sig, detail) };
                let replay = write_replay("C07", &sig, i as u64, json!({"property": "C07", "namespace": ns, "topic": tp, "detail": detail}));
                rep.violation(Violation { signature: format!("C07/server/{}", sig), detail, replay });
            }
        }
    }
    rep.evaluations += 5;
    if leaks.is_empty() {
        for i in 0..5u64 {
            rep.distinct.insert(0x150 + i);
        }
    } else {
        let replay = write_replay("C07", "traffic-shared", 0, json!({"property": "C07", "leaks": leaks}));
        rep.violation(Violation { signature: "C07/server/traffic-shared-between-names".into(), detail: format!("{} cross-topic deliveries, e.g. {}", leaks.len(), leaks[0]), replay });
    }
    for p in repo_panics_since(mark) {
        rep.violation(Violation { signature: format!("C07/server/panic/{}", crate::routersim::exec::normalise_location(&p.location)), detail: format!("panic at {}: {}", p.location, p.message), replay: String::new() });
    }
    rep.count("wire_names_must_accept", zone_counts[0]);
    rep.count("wire_names_must_reject", zone_counts[1]);
    rep.count("wire_names_tolerated", zone_counts[2]);
    rep.count("isolation_messages_published", iso_msgs);
    rep.count("isolation_name_groups", n_groups);
    rep.rule = "raw registrations of all four kinds carrying (namespace, topic) pairs built with the unchecked constructor: names the reference predicate rejects must be answered with Error{INVALID_TOPIC_NAME}, valid names with Ok; a second pass on the same server re-submits every rejected name and names recombined from the parts of accepted names (the verdict must not depend on history); plus 9 groups of 4 distinct valid names that collide under sloppy keying (case, separators, concatenation, names of up to 256 bytes that differ only after byte 64), each publishing tagged messages concurrently — a tag seen on another name refutes isolation; distinct = distinct (namespace, topic, kind)".into();
}

//! An independent implementation of selium's wire format, written from the format description (8-byte big-endian
//! payload length, 1-byte frame type, bincode fixed-int little-endian payload) and *not* sharing any code with
//! `selium_protocol::MessageCodec` / `Frame::get_length`. It plays the peers the repository's own codec can never
//! play: another implementation of the protocol, an older release, a hostile peer — frames of exactly the limit
//! size, frames pipelined behind the registration, streams cut in the middle of a header.

use anyhow::{anyhow, Result};
use std::time::Duration;

pub const T_REG_PUB: u8 = 0;
pub const T_REG_SUB: u8 = 1;
pub const T_REG_REP: u8 = 2;
pub const T_REG_REQ: u8 = 3;
pub const T_MESSAGE: u8 = 4;
pub const T_BATCH: u8 = 5;
pub const T_ERROR: u8 = 6;
pub const T_OK: u8 = 7;
pub const LIMIT: usize = 1024 * 1024;

fn put_str(v: &mut Vec<u8>, s: &str) {
    v.extend_from_slice(&(s.len() as u64).to_le_bytes());
    v.extend_from_slice(s.as_bytes());
}

pub fn frame(ty: u8, payload: &[u8]) -> Vec<u8> {
    let mut v = Vec::with_capacity(payload.len() + 9);
    v.extend_from_slice(&(payload.len() as u64).to_be_bytes());
    v.push(ty);
    v.extend_from_slice(payload);
    v
}

/// "/namespace/topic" → (namespace, topic)
pub fn split_name(name: &str) -> (String, String) {
    let t = name.trim_start_matches('/');
    match t.split_once('/') {
        Some((a, b)) => (a.to_string(), b.to_string()),
        None => (t.to_string(), String::new()),
    }
}

/// registration frame of the given kind (0 publisher, 1 subscriber, 2 replier, 3 requestor)
pub fn enc_register(kind: u8, name: &str) -> Vec<u8> {
    let (ns, t) = split_name(name);
    let mut p = vec![];
    put_str(&mut p, &ns);
    put_str(&mut p, &t);
    if kind <= 1 {
        p.extend_from_slice(&5u64.to_le_bytes()); // retention policy
        p.extend_from_slice(&0u64.to_le_bytes()); // no operations
    }
    frame(kind, &p)
}

pub fn message_payload(headers: Option<&[(String, String)]>, body: &[u8]) -> Vec<u8> {
    let mut p = vec![];
    match headers {
        None => p.push(0),
        Some(h) => {
            p.push(1);
            p.extend_from_slice(&(h.len() as u64).to_le_bytes());
            for (k, v) in h {
                put_str(&mut p, k);
                put_str(&mut p, v);
            }
        }
    }
    p.extend_from_slice(&(body.len() as u64).to_le_bytes());
    p.extend_from_slice(body);
    p
}

pub fn enc_message(headers: Option<&[(String, String)]>, body: &[u8]) -> Vec<u8> {
    frame(T_MESSAGE, &message_payload(headers, body))
}

/// largest body a header-less Message frame can carry within the frame limit
pub const MAX_PLAIN_BODY: usize = LIMIT - 9;

pub fn enc_error(code: u32, msg: &[u8]) -> Vec<u8> {
    let mut p = code.to_le_bytes().to_vec();
    p.extend_from_slice(&(msg.len() as u64).to_le_bytes());
    p.extend_from_slice(msg);
    frame(T_ERROR, &p)
}

#[derive(Clone, Debug, PartialEq)]
pub enum WFrame {
    Ok,
    Error { code: u32, message: Vec<u8> },
    Message { headers: Option<Vec<(String, String)>>, body: Vec<u8> },
    Batch(Vec<u8>),
    Other(u8, Vec<u8>),
}

struct Cur<'a>(&'a [u8]);
impl<'a> Cur<'a> {
    fn take(&mut self, n: usize) -> std::result::Result<&'a [u8], String> {
        if self.0.len() < n {
            return Err(format!("payload truncated: need {} more bytes, have {}", n, self.0.len()));
        }
        let (a, b) = self.0.split_at(n);
        self.0 = b;
        Ok(a)
    }
    fn u64(&mut self) -> std::result::Result<u64, String> {
        Ok(u64::from_le_bytes(self.take(8)?.try_into().unwrap()))
    }
    fn string(&mut self) -> std::result::Result<String, String> {
        let n = self.u64()? as usize;
        String::from_utf8(self.take(n)?.to_vec()).map_err(|e| e.to_string())
    }
}

pub fn parse_payload(ty: u8, p: &[u8]) -> std::result::Result<WFrame, String> {
    let mut c = Cur(p);
    let f = match ty {
        T_OK => WFrame::Ok,
        T_ERROR => {
            let code = u32::from_le_bytes(c.take(4)?.try_into().unwrap());
            let n = c.u64()? as usize;
            WFrame::Error { code, message: c.take(n)?.to_vec() }
        }
        T_MESSAGE => {
            let headers = match c.take(1)?[0] {
                0 => None,
                1 => {
                    let n = c.u64()?;
                    let mut h = vec![];
                    for _ in 0..n {
                        let k = c.string()?;
                        let v = c.string()?;
                        h.push((k, v));
                    }
                    h.sort();
                    Some(h)
                }
                x => return Err(format!("bad Option tag {}", x)),
            };
            let n = c.u64()? as usize;
            WFrame::Message { headers, body: c.take(n)?.to_vec() }
        }
        T_BATCH => return Ok(WFrame::Batch(p.to_vec())),
        _ => return Ok(WFrame::Other(ty, p.to_vec())),
    };
    if !c.0.is_empty() {
        return Err(format!("{} trailing byte(s) after the payload of a type-{} frame", c.0.len(), ty));
    }
    Ok(f)
}

/// takes one complete frame off the front of `buf` (None: incomplete)
pub fn parse_frame(buf: &mut Vec<u8>) -> Option<std::result::Result<WFrame, String>> {
    if buf.len() < 9 {
        return None;
    }
    let len = u64::from_be_bytes(buf[..8].try_into().unwrap()) as usize;
    if len > LIMIT {
        return Some(Err(format!("peer announced a payload of {} bytes (limit {})", len, LIMIT)));
    }
    if buf.len() < 9 + len {
        return None;
    }
    let ty = buf[8];
    let payload: Vec<u8> = buf[9..9 + len].to_vec();
    buf.drain(..9 + len);
    Some(parse_payload(ty, &payload))
}

pub struct WireStream {
    pub send: quinn::SendStream,
    pub recv: quinn::RecvStream,
    buf: Vec<u8>,
}

#[derive(Debug, PartialEq)]
pub enum Next {
    Frame(WFrame),
    Eof,
    Reset(String),
    Timeout,
    Garbage(String),
}

impl WireStream {
    pub async fn open(conn: &quinn::Connection) -> Result<WireStream> {
        let (send, recv) = conn.open_bi().await.map_err(|e| anyhow!("open_bi: {e}"))?;
        Ok(WireStream { send, recv, buf: vec![] })
    }

    pub async fn write(&mut self, bytes: &[u8]) -> std::result::Result<(), String> {
        self.send.write_all(bytes).await.map_err(|e| e.to_string())
    }

    pub async fn finish(&mut self) -> std::result::Result<(), String> {
        self.send.finish().await.map_err(|e| e.to_string())
    }

    pub async fn next(&mut self, wait: Duration) -> Next {
        let deadline = tokio::time::Instant::now() + wait;
        loop {
            if let Some(r) = parse_frame(&mut self.buf) {
                return match r {
                    Ok(f) => Next::Frame(f),
                    Err(e) => Next::Garbage(e),
                };
            }
            let mut chunk = vec![0u8; 64 * 1024];
            match tokio::time::timeout_at(deadline, self.recv.read(&mut chunk)).await {
                Err(_) => return Next::Timeout,
                Ok(Ok(Some(n))) => self.buf.extend_from_slice(&chunk[..n]),
                Ok(Ok(None)) => {
                    return if self.buf.is_empty() { Next::Eof } else { Next::Garbage(format!("stream ended with {} stray byte(s)", self.buf.len())) };
                }
                Ok(Err(e)) => return Next::Reset(e.to_string()),
            }
        }
    }

    /// register and wait for the server's verdict
    pub async fn register(conn: &quinn::Connection, kind: u8, name: &str, wait: Duration) -> std::result::Result<WireStream, String> {
        let mut s = WireStream::open(conn).await.map_err(|e| e.to_string())?;
        s.write(&enc_register(kind, name)).await?;
        match s.next(wait).await {
            Next::Frame(WFrame::Ok) => Ok(s),
            other => Err(format!("registration of kind {} on {} answered {:?}", kind, name, other)),
        }
    }
}

//! C15 — mutual TLS: only peers certified by the configured CA can talk.
//! Matrix: client identity {trusted CA, other CA, self-signed, none} × server identity {trusted CA,
//! other CA} (as seen by a client trusting CA-A), fresh keys every round.
//! Observable: does connect + first registration obtain `Ok`?

use super::*;
use crate::common::{write_replay, StageReport, Violation};
use selium::prelude::*;
use selium::std::codecs::StringCodec;
use selium_protocol::{PublisherPayload, TopicName};
use serde_json::json;

async fn raw_attempt(addr: SocketAddr, trust_ca: &[u8], ident: ClientIdentity, topic: &str) -> std::result::Result<(), String> {
    let cfg = raw_client_config(trust_ca, ident).map_err(|e| format!("config: {e}"))?;
    let rc = tokio::time::timeout(Duration::from_secs(8), raw_connect_with(addr, cfg)).await.map_err(|_| "connect timed out".to_string())?.map_err(|e| format!("connect: {e}"))?;
    let tn = TopicName::try_from(topic).map_err(|e| e.to_string())?;
    let (_s, reply) = rc
        .open(Frame::RegisterPublisher(PublisherPayload { topic: tn, retention_policy: 0, operations: vec![] }), Duration::from_secs(8))
        .await
        .map_err(|e| format!("register: {e}"))?;
    match reply {
        Some(Frame::Ok) => Ok(()),
        other => Err(format!("first reply {:?}", other)),
    }
}

async fn lib_attempt(addr: &str, ca: &Path, cert: &Path, key: &Path, topic: &str) -> std::result::Result<(), String> {
    let fut = async {
        let client = selium::custom()
            .keep_alive(5_000u64)
            .map_err(|e| e.to_string())?
            .backoff_strategy(selium::keep_alive::BackoffStrategy::constant().with_max_attempts(1).with_step(Duration::from_millis(10)))
            .endpoint(addr)
            .with_certificate_authority(ca)
            .map_err(|e| format!("ca: {e}"))?
            .with_cert_and_key(cert, key)
            .map_err(|e| format!("keypair: {e}"))?
            .connect()
            .await
            .map_err(|e| format!("connect: {e}"))?;
        let _p = client.publisher(topic).with_encoder(StringCodec).open().await.map_err(|e| format!("open publisher: {e}"))?;
        Ok::<(), String>(())
    };
    match tokio::time::timeout(Duration::from_secs(12), fut).await {
        Ok(r) => r,
        Err(_) => Err("timed out".into()),
    }
}

/// An impostor takes over the server's address while a client is connected (a UDP relay is re-targeted): the client's
/// keep-alive layer retries the connection several times against the same, wrongly certified peer. Every one of those
/// handshakes has to be refused — not only the first.
///
/// `rotated_ca`: the other direction — the address is taken over by the *same* server identity restarted with another
/// client CA (a CA rotation): the reconnecting client, certified by the old CA, must be refused like a fresh one.
async fn impostor_after_reconnect(a: &Certs, b: &Certs, round: usize, rotated_ca: bool) -> (String, bool, std::result::Result<(), String>) {
    use futures::SinkExt;
    let cell = if rotated_ca {
        "lib: client certified by CA-A, connected to the server, loses its connection while the server is restarted with the same certificate and key but --ca CA-B; 5 reconnect attempts".to_string()
    } else {
        "lib: client trusting CA-A, connected to server A, loses its connection and finds an impostor (certificate from CA-B, accepts CA-A clients) on the same address; 5 reconnect attempts".to_string()
    };
    let inc = |e: String| (cell.clone(), false, Err(format!("INCONCLUSIVE {}", e)));
    let sa = match start_server(a) {
        Ok(s) => s,
        Err(e) => return inc(format!("server A: {e}")),
    };
    let imp = match if rotated_ca { start_server_with(&b.server_ca(), &a.server_cert(), &a.server_key()) } else { start_server_with(&a.server_ca(), &b.server_cert(), &b.server_key()) } {
        Ok(s) => s,
        Err(e) => return inc(format!("impostor: {e}")),
    };
    let relay = match super::c12::Relay::start(sa.addr).await {
        Ok(r) => r,
        Err(e) => return inc(format!("relay: {e}")),
    };
    let topic = format!("/c15r{}/takeover", round);
    // what reaches the impostor: a raw subscriber connected to it directly
    let observer_cfg = if rotated_ca {
        raw_client_config(&read_der(&a.client_ca()).unwrap(), ClientIdentity::Cert(read_der(&b.client_cert()).unwrap(), read_der(&b.client_key()).unwrap())).unwrap()
    } else {
        raw_client_config(&read_der(&b.client_ca()).unwrap(), ClientIdentity::Cert(read_der(&a.client_cert()).unwrap(), read_der(&a.client_key()).unwrap())).unwrap()
    };
    let imp_conn = match raw_connect_with(imp.addr, observer_cfg).await {
        Ok(c) => c,
        Err(e) => return inc(format!("connect to the impostor: {e}")),
    };
    let tn = selium_protocol::TopicName::try_from(topic.as_str()).unwrap();
    let (mut imp_sub, r) = match imp_conn.open(Frame::RegisterSubscriber(selium_protocol::SubscriberPayload { topic: tn, retention_policy: 0, operations: vec![] }), Duration::from_secs(8)).await {
        Ok(x) => x,
        Err(e) => return inc(format!("impostor-side subscriber: {e}")),
    };
    if r != Some(Frame::Ok) {
        return inc(format!("impostor-side subscriber answered {:?}", r));
    }
    let client = selium::custom()
        .keep_alive(5_000u64)
        .unwrap()
        .backoff_strategy(selium::keep_alive::BackoffStrategy::constant().with_max_attempts(5).with_step(Duration::from_millis(40)))
        .endpoint(&relay.addr.to_string())
        .with_certificate_authority(a.client_ca())
        .and_then(|b2| b2.with_cert_and_key(a.client_cert(), a.client_key()));
    let client = match client {
        Ok(b2) => match b2.connect().await {
            Ok(c) => c,
            Err(e) => return inc(format!("connect through the relay: {e}")),
        },
        Err(e) => return inc(format!("client builder: {e}")),
    };
    let mut publ = match client.publisher(&topic).with_encoder(StringCodec).open().await {
        Ok(p) => p,
        Err(e) => return inc(format!("open publisher: {e}")),
    };
    if publ.send("to the real server".to_string()).await.is_err() {
        return inc("send on the healthy connection failed".into());
    }
    // the address changes hands
    relay.retarget(imp.addr);
    client.verif_close_connection().await;
    let mut outcomes = vec![];
    for k in 0..8 {
        let r = tokio::time::timeout(Duration::from_secs(20), publ.send(format!("top secret #{}", k))).await;
        outcomes.push(match r {
            Ok(Ok(())) => "Ok".to_string(),
            Ok(Err(e)) => format!("Err({})", e),
            Err(_) => "no return within 20 s".to_string(),
        });
        tokio::time::sleep(Duration::from_millis(60)).await;
    }
    let mut leaked = vec![];
    while let Ok(Some(Ok(Frame::Message(m)))) = tokio::time::timeout(Duration::from_millis(400), imp_sub.next()).await {
        leaked.push(String::from_utf8_lossy(&m.message).to_string());
    }
    relay.stop();
    sa.stop();
    imp.stop();
    if leaked.is_empty() {
        (cell, false, Err(format!("refused: nothing reached the impostor; send() results {:?}", outcomes)))
    } else {
        // "observed Ok": the client talked to a server whose certificate does not chain to its CA
        let _ = &outcomes;
        (format!("{} — the impostor's subscriber received {:?}", cell, leaked), false, Ok(()))
    }
}

/// The server is started (as a child process, like the real binary) with a `--ca` path that does not exist, from a
/// working directory that holds another hierarchy's certificates at the stock location `certs/server/…` (what
/// `gen-certs` writes by default). It must not come up trusting that other hierarchy: either it refuses to start, or
/// it admits nobody certified by it.
async fn missing_ca_file(exe: &str, a: &Certs, b: &Certs, round: usize) -> (String, bool, std::result::Result<(), String>) {
    let cell = "server: started with a --ca file that does not exist, in a directory whose certs/server/ holds another CA → client certified by that other CA".to_string();
    let cwd = scratch_dir().join(format!("cwd-{}-{}", std::process::id(), round));
    let stock = cwd.join("certs/server");
    if std::fs::create_dir_all(&stock).is_err() {
        return (cell, false, Err("INCONCLUSIVE could not create the working directory".into()));
    }
    for (from, name) in [(b.server_ca(), "ca.der"), (b.server_cert(), "localhost.der"), (b.server_key(), "localhost.key.der")] {
        let _ = std::fs::copy(from, stock.join(name));
    }
    let addr_file = cwd.join("addr");
    let child = std::process::Command::new(exe)
        .current_dir(&cwd)
        .args(["--serve", "--certs", &a.dir.to_string_lossy(), "--addr-file", &addr_file.to_string_lossy(), "--ca", &a.dir.join("server/ca-rotated-away.der").to_string_lossy()])
        .stdout(std::process::Stdio::null())
        .stderr(std::process::Stdio::null())
        .spawn();
    let mut child = match child {
        Ok(c) => c,
        Err(e) => return (cell, false, Err(format!("INCONCLUSIVE spawn: {e}"))),
    };
    let t0 = std::time::Instant::now();
    let mut addr: Option<SocketAddr> = None;
    while t0.elapsed() < Duration::from_secs(6) {
        if let Ok(Some(_)) = child.try_wait() {
            break; // refused to start: the right answer
        }
        if let Ok(sa) = std::fs::read_to_string(&addr_file) {
            if let Ok(x) = sa.trim().parse() {
                addr = Some(x);
                break;
            }
        }
        tokio::time::sleep(Duration::from_millis(30)).await;
    }
    let verdict = match addr {
        None => Err("the server did not come up (it refused to start without its CA)".to_string()),
        Some(sa) => {
            // it is up: whom does it admit? a client of the *other* hierarchy, trusting whatever the server presents
            let id_b = ClientIdentity::Cert(read_der(&b.client_cert()).unwrap(), read_der(&b.client_key()).unwrap());
            let r = raw_attempt(sa, &read_der(&a.client_ca()).unwrap(), id_b, &format!("/c15r{}/missing-ca", round)).await;
            r.map_err(|e| format!("refused: {}", e))
        }
    };
    let _ = child.kill();
    let _ = child.wait();
    let _ = std::fs::remove_dir_all(&cwd);
    (cell, false, verdict)
}

pub fn run(rep: &mut StageReport, tier: &str, _seed: u64, exe: &str) {
    let rounds = if tier == "thorough" { 40 } else { 6 };
    rep.max_samples = 14;
    let rt = runtime(4);
    let mark = panic_mark();
    for round in 0..rounds {
        // two independent certificate sets from the bundled generator, fresh keys
        let (a, b) = match (gen_certs(), gen_certs()) {
            (Ok(a), Ok(b)) => (a, b),
            _ => {
                rep.inconclusive("certificate generation failed");
                continue;
            }
        };
        // the platform trust store must not widen whom a client trusts: make CA-B "platform trusted" for this
        // process (rustls-native-certs honours SSL_CERT_FILE) — a client configured with CA-A must still refuse
        // a server certified by CA-B
        {
            let p = scratch_dir().join(format!("platform-ca-{}.pem", round));
            let _ = std::fs::write(&p, pem("CERTIFICATE", &read_der(&b.server_ca()).unwrap_or_default()));
            std::env::set_var("SSL_CERT_FILE", &p);
        }
        let self_signed = match rcgen::generate_simple_self_signed(vec!["localhost".to_string()]) {
            Ok(c) => c,
            Err(e) => {
                rep.inconclusive(&format!("rcgen: {e}"));
                continue;
            }
        };
        let ss_cert = self_signed.serialize_der().unwrap();
        let ss_key = self_signed.serialize_private_key_der();
        let cells: Vec<(String, bool, std::result::Result<(), String>)> = rt.block_on(async {
            let (sa, sb) = match (start_server(&a), start_server(&b)) {
                (Ok(x), Ok(y)) => (x, y),
                _ => return vec![("server start".into(), true, Err("INCONCLUSIVE server start failed".into()))],
            };
            let ca_a = read_der(&a.client_ca()).unwrap();
            let id_a = ClientIdentity::Cert(read_der(&a.client_cert()).unwrap(), read_der(&a.client_key()).unwrap());
            let id_b = ClientIdentity::Cert(read_der(&b.client_cert()).unwrap(), read_der(&b.client_key()).unwrap());
            let id_ss = ClientIdentity::Cert(ss_cert.clone(), ss_key.clone());
            // a server certificate used as a client identity (wrong extended key usage)
            let id_srv = ClientIdentity::Cert(read_der(&a.server_cert()).unwrap(), read_der(&a.server_key()).unwrap());
            let t = |n: u32| format!("/c15r{}/cell{}", round, n);
            let mut v = vec![];
            // --- library client -------------------------------------------------------------------
            v.push(("lib: client cert from trusted CA → server A".to_string(), true, lib_attempt(&sa.endpoint(), &a.client_ca(), &a.client_cert(), &a.client_key(), &t(1)).await));
            v.push(("lib: client cert from trusted CA of set B → server B (generator's second set)".to_string(), true, lib_attempt(&sb.endpoint(), &b.client_ca(), &b.client_cert(), &b.client_key(), &t(2)).await));
            v.push(("lib: client cert from other CA (B) → server A".to_string(), false, lib_attempt(&sa.endpoint(), &a.client_ca(), &b.client_cert(), &b.client_key(), &t(3)).await));
            v.push(("lib: client trusting CA-A → server B (server cert from other CA)".to_string(), false, lib_attempt(&sb.endpoint(), &a.client_ca(), &a.client_cert(), &a.client_key(), &t(4)).await));
            v.push(("lib: client trusting CA-B with cert A → server A (server cert not from client's CA)".to_string(), false, lib_attempt(&sa.endpoint(), &b.client_ca(), &a.client_cert(), &a.client_key(), &t(5)).await));
            // --- raw quinn/rustls client -------------------------------------------------------------
            v.push(("raw: trusted-CA client cert → server A".to_string(), true, raw_attempt(sa.addr, &ca_a, id_a.clone(), &t(6)).await));
            v.push(("raw: other-CA client cert → server A".to_string(), false, raw_attempt(sa.addr, &ca_a, id_b.clone(), &t(7)).await));
            v.push(("raw: self-signed client cert → server A".to_string(), false, raw_attempt(sa.addr, &ca_a, id_ss.clone(), &t(8)).await));
            v.push(("raw: no client certificate → server A".to_string(), false, raw_attempt(sa.addr, &ca_a, ClientIdentity::None, &t(9)).await));
            v.push(("raw: trusted-CA client cert, trusting CA-A → server B (other-CA server)".to_string(), false, raw_attempt(sb.addr, &ca_a, id_a.clone(), &t(10)).await));
            v.push(("raw: no client certificate → server B".to_string(), false, raw_attempt(sb.addr, &read_der(&b.client_ca()).unwrap(), ClientIdentity::None, &t(11)).await));
            v.push(("raw: self-signed client cert → server B".to_string(), false, raw_attempt(sb.addr, &read_der(&b.client_ca()).unwrap(), id_ss.clone(), &t(12)).await));
            // --- bundles: an untrusted end entity (whose key the peer holds) followed by certificates it merely
            // *knows* — a legitimate client's certificate is public, the CA's too. Only the first certificate is proven
            // by the handshake signature; nothing that follows may make the peer trusted.
            {
                let victim = read_der(&a.client_cert()).unwrap();
                let ca_cert_a = read_der(&a.server_ca()).unwrap();
                let b_leaf = read_der(&b.client_cert()).unwrap();
                let b_key = read_der(&b.client_key()).unwrap();
                let b_ca = read_der(&b.client_ca()).unwrap();
                let bundles: Vec<(&str, Vec<Vec<u8>>, Vec<u8>)> = vec![
                    ("[self-signed, a trusted client's certificate]", vec![ss_cert.clone(), victim.clone()], ss_key.clone()),
                    ("[other-CA leaf, a trusted client's certificate]", vec![b_leaf.clone(), victim.clone()], b_key.clone()),
                    ("[other-CA leaf, other CA, a trusted client's certificate]", vec![b_leaf.clone(), b_ca.clone(), victim.clone()], b_key.clone()),
                    ("[self-signed, trusted CA's certificate, a trusted client's certificate]", vec![ss_cert.clone(), ca_cert_a.clone(), victim.clone()], ss_key.clone()),
                    ("[self-signed, trusted CA's certificate]", vec![ss_cert.clone(), ca_cert_a.clone()], ss_key.clone()),
                    ("[other-CA leaf, a trusted client's certificate, trusted CA's certificate]", vec![b_leaf.clone(), victim.clone(), ca_cert_a.clone()], b_key.clone()),
                ];
                let mut cell = 70u32;
                for (what, chain, key) in bundles {
                    cell += 1;
                    v.push((format!("raw: client presents the bundle {} with the first certificate's key → server A", what), false, raw_attempt(sa.addr, &ca_a, ClientIdentity::Chain(chain, key), &t(cell)).await));
                }
                // control: a trusted client that also sends its CA's certificate is still served
                v.push(("raw: trusted client presents [its certificate, its CA's certificate] → server A".to_string(), true, raw_attempt(sa.addr, &ca_a, ClientIdentity::Chain(vec![victim.clone(), ca_cert_a.clone()], read_der(&a.client_key()).unwrap()), &t(79)).await));
            }
            let _ = id_srv; // (a server certificate used as client identity chains to the CA: the statement does not decide this cell)
            // --- untrusted client certificates with unusual validity periods: whatever their dates say, they do not
            // chain to the server's CA (self-signed, or signed by a CA minted here that nobody trusts)
            {
                use time::{Duration as TD, OffsetDateTime};
                let now = OffsetDateTime::now_utc();
                let mint = |from: OffsetDateTime, to: OffsetDateTime, signed_by_unknown_ca: bool| -> Option<ClientIdentity> {
                    let mut p = rcgen::CertificateParams::new(vec!["localhost".to_string()]);
                    p.not_before = from;
                    p.not_after = to;
                    let leaf = rcgen::Certificate::from_params(p).ok()?;
                    let key = leaf.serialize_private_key_der();
                    let der = if signed_by_unknown_ca {
                        let mut cp = rcgen::CertificateParams::new(vec![]);
                        cp.is_ca = rcgen::IsCa::Ca(rcgen::BasicConstraints::Unconstrained);
                        let ca = rcgen::Certificate::from_params(cp).ok()?;
                        leaf.serialize_der_with_signer(&ca).ok()?
                    } else {
                        leaf.serialize_der().ok()?
                    };
                    Some(ClientIdentity::Cert(der, key))
                };
                let periods: Vec<(&str, OffsetDateTime, OffsetDateTime)> = vec![
                    ("valid for the last two hours until one hour ago", now - TD::hours(2), now - TD::hours(1)),
                    ("expired one minute ago", now - TD::days(30), now - TD::minutes(1)),
                    ("expired 23 hours ago", now - TD::days(30), now - TD::hours(23)),
                    ("expired 25 hours ago", now - TD::days(30), now - TD::hours(25)),
                    ("expired a year ago", now - TD::days(800), now - TD::days(365)),
                    ("not valid before tomorrow", now + TD::days(1), now + TD::days(30)),
                    ("minted already expired (not_after before not_before)", now - TD::hours(1), now - TD::hours(2)),
                ];
                let mut cell = 40u32;
                for (what, from, to) in periods {
                    for unknown_ca in [false, true] {
                        cell += 1;
                        if let Some(id) = mint(from, to, unknown_ca) {
                            v.push((format!("raw: {} client cert, {} → server A", if unknown_ca { "unknown-CA" } else { "self-signed" }, what), false, raw_attempt(sa.addr, &ca_a, id, &t(cell)).await));
                        }
                    }
                }
            }
            // --- server started from PEM files whose certificate file is a chain: [its leaf (from CA-A), CA-B's
            // certificate]. Extra certificates in the server's own chain file must not widen whom it trusts.
            let pem_dir = scratch_dir().join(format!("pem-{}", round));
            let _ = std::fs::create_dir_all(&pem_dir);
            let chain = format!("{}{}", pem("CERTIFICATE", &read_der(&a.server_cert()).unwrap()), pem("CERTIFICATE", &read_der(&b.server_ca()).unwrap()));
            let (cert_pem, key_pem, ca_pem) = (pem_dir.join("fullchain.pem"), pem_dir.join("key.pem"), pem_dir.join("ca.pem"));
            let _ = std::fs::write(&cert_pem, chain);
            let _ = std::fs::write(&key_pem, pem("PRIVATE KEY", &read_der(&a.server_key()).unwrap()));
            let _ = std::fs::write(&ca_pem, pem("CERTIFICATE", &read_der(&a.server_ca()).unwrap()));
            match start_server_with(&ca_pem, &cert_pem, &key_pem) {
                Ok(sc) => {
                    v.push(("raw: trusted-CA client cert → server A started from PEM files (chain file = leaf + unrelated CA-B certificate)".to_string(), true, raw_attempt(sc.addr, &ca_a, id_a.clone(), &t(14)).await));
                    v.push(("raw: client cert from CA-B, whose certificate merely appears in the server's chain file → that server".to_string(), false, raw_attempt(sc.addr, &ca_a, id_b.clone(), &t(15)).await));
                    v.push(("raw: self-signed client cert → that server".to_string(), false, raw_attempt(sc.addr, &ca_a, id_ss.clone(), &t(16)).await));
                    v.push(("lib: client cert from CA-B → that server".to_string(), false, lib_attempt(&sc.endpoint(), &a.client_ca(), &b.client_cert(), &b.client_key(), &t(17)).await));
                    sc.stop();
                }
                Err(e) => v.push(("server from PEM files".to_string(), true, Err(format!("INCONCLUSIVE server start from PEM files failed: {e}")))),
            }
            // --- impostor servers: they accept this deployment's clients (client CA = CA-A) but present a server
            // certificate that does not chain to CA-A, so the *client's* verification is the only line of defence.
            // CA-B is in this process' platform trust store (SSL_CERT_FILE above).
            // the client side configured from PEM files (CA, certificate and PKCS#8 key)
            let (cca, ccert, ckey) = (pem_dir.join("client-ca.pem"), pem_dir.join("client-cert.pem"), pem_dir.join("client-key.pem"));
            let _ = std::fs::write(&cca, pem("CERTIFICATE", &read_der(&a.client_ca()).unwrap()));
            let _ = std::fs::write(&ccert, pem("CERTIFICATE", &read_der(&a.client_cert()).unwrap()));
            let _ = std::fs::write(&ckey, pem("PRIVATE KEY", &read_der(&a.client_key()).unwrap()));
            let (bcert, bkey) = (pem_dir.join("client-b-cert.pem"), pem_dir.join("client-b-key.pem"));
            let _ = std::fs::write(&bcert, pem("CERTIFICATE", &read_der(&b.client_cert()).unwrap()));
            let _ = std::fs::write(&bkey, pem("PRIVATE KEY", &read_der(&b.client_key()).unwrap()));
            v.push(("lib (PEM files): client cert from trusted CA → server A".to_string(), true, lib_attempt(&sa.endpoint(), &cca, &ccert, &ckey, &t(26)).await));
            v.push(("lib (PEM files): client cert from other CA (B) → server A".to_string(), false, lib_attempt(&sa.endpoint(), &cca, &bcert, &bkey, &t(27)).await));
            match start_server_with(&a.server_ca(), &b.server_cert(), &b.server_key()) {
                Ok(si) => {
                    v.push(("lib (PEM files): client trusting CA-A only → impostor server whose certificate chains to CA-B".to_string(), false, lib_attempt(&si.endpoint(), &cca, &ccert, &ckey, &t(28)).await));
                    v.push(("lib: client trusting CA-B with cert A → impostor server (cert from CA-B, accepts CA-A clients): control, must work".to_string(), true, lib_attempt(&si.endpoint(), &b.client_ca(), &a.client_cert(), &a.client_key(), &t(18)).await));
                    v.push(("lib: client trusting CA-A only → impostor server whose certificate chains to CA-B, a CA of the host's platform trust store".to_string(), false, lib_attempt(&si.endpoint(), &a.client_ca(), &a.client_cert(), &a.client_key(), &t(19)).await));
                    si.stop();
                }
                Err(e) => v.push(("impostor server".to_string(), true, Err(format!("INCONCLUSIVE impostor server start failed: {e}")))),
            }
            let (ss_cert_p, ss_key_p) = (pem_dir.join("ss.der"), pem_dir.join("ss.key.der"));
            let _ = std::fs::write(&ss_cert_p, &ss_cert);
            let _ = std::fs::write(&ss_key_p, &ss_key);
            match start_server_with(&a.server_ca(), &ss_cert_p, &ss_key_p) {
                Ok(si) => {
                    v.push(("lib: client trusting CA-A only → impostor server with a self-signed certificate (accepts CA-A clients)".to_string(), false, lib_attempt(&si.endpoint(), &a.client_ca(), &a.client_cert(), &a.client_key(), &t(20)).await));
                    v.push(("raw: client trusting that self-signed certificate, cert A → the same impostor: control, must work".to_string(), true, raw_attempt(si.addr, &ss_cert, id_a.clone(), &t(21)).await));
                    si.stop();
                }
                Err(e) => v.push(("impostor server (self-signed)".to_string(), true, Err(format!("INCONCLUSIVE impostor server start failed: {e}")))),
            }
            // --- the CA file a deployment points at is replaced in place (CA rotation): a client built afterwards
            // from the same path trusts what the file says *now*
            let deployed = pem_dir.join("deployed-ca.der");
            let _ = std::fs::write(&deployed, read_der(&a.client_ca()).unwrap());
            v.push(("lib: client built from a deployed CA path holding CA-A → server A: control, must work".to_string(), true, lib_attempt(&sa.endpoint(), &deployed, &a.client_cert(), &a.client_key(), &t(22)).await));
            let _ = std::fs::write(&deployed, read_der(&b.client_ca()).unwrap());
            v.push(("lib: client built from the same path after the file was replaced by CA-B (cert A) → server A, whose certificate chains to the CA the file no longer holds".to_string(), false, lib_attempt(&sa.endpoint(), &deployed, &a.client_cert(), &a.client_key(), &t(23)).await));
            v.push(("lib: client built from the same path after the file was replaced by CA-B (cert B) → server B: must work".to_string(), true, lib_attempt(&sb.endpoint(), &deployed, &b.client_cert(), &b.client_key(), &t(24)).await));
            let _ = std::fs::write(&deployed, read_der(&a.client_ca()).unwrap());
            v.push(("lib: the file is switched back to CA-A (cert B) → server B".to_string(), false, lib_attempt(&sb.endpoint(), &deployed, &b.client_cert(), &b.client_key(), &t(25)).await));
            v.push(missing_ca_file(exe, &a, &b, round).await);
            if round == 0 {
                v.push(impostor_after_reconnect(&a, &b, round, false).await);
                v.push(impostor_after_reconnect(&a, &b, round, true).await);
            }
            let _ = std::fs::remove_dir_all(&pem_dir);
            sa.stop();
            sb.stop();
            v
        });
        for (i, (cell, expect_ok, got)) in cells.into_iter().enumerate() {
            rep.evaluations += 1;
            if let Err(e) = &got {
                if e.starts_with("INCONCLUSIVE") {
                    rep.inconclusive(e);
                    continue;
                }
            }
            let ok = got.is_ok();
            if ok == expect_ok {
                rep.distinct.insert(crate::common::mix(round as u64, i as u64));
                if round == 0 {
                    rep.sample(json!({"cell": cell, "expected": if expect_ok { "registration succeeds" } else { "refused before any topic traffic" },
                        "observed": match &got { Ok(()) => "Ok".to_string(), Err(e) => format!("refused: {}", e.chars().take(90).collect::<String>()) }}));
                }
            } else {
                let sig = if expect_ok { "trusted-peer-refused" } else { "untrusted-peer-accepted" };
                let detail = format!("round {}: {} — expected {}, observed {:?}", round, cell, if expect_ok { "success" } else { "refusal" }, got);
                let replay = write_replay("C15", sig, round as u64, json!({"property": "C15", "cell": cell, "detail": detail}));
                rep.violation(Violation { signature: format!("C15/mtls/{}/{}", sig, cell.split(':').next().unwrap_or("")), detail, replay });
            }
        }
    }
    for p in repo_panics_since(mark) {
        rep.violation(Violation { signature: format!("C15/mtls/panic/{}", crate::routersim::exec::normalise_location(&p.location)), detail: format!("panic at {}: {}", p.location, p.message), replay: String::new() });
    }
    rep.max_samples = 14;
    rep.rule = "one evaluation = one (client identity, client trust, server identity) cell: connect + first RegisterPublisher must obtain Ok exactly when the client certificate chains to the server's CA and the server certificate chains to the client's CA; certificate sets from the bundled generator, self-signed certificate from rcgen, fresh keys every round; distinct = (round, cell)".into();
}

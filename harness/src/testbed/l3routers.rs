//! L3 confirmations for the router properties (the L1 simulator is the deciding monitor):
//!  * C01: several topics with near-colliding names, two publishers each, a fast and a deliberately
//!         slow subscriber (real FramedWrite back-pressure) — exactly-once, in order, isolated.
//!  * C09: every role combination against the real server on a *current-thread* runtime in a child
//!         process with a heartbeat; a frozen heartbeat = a router poll that never returns. Plus the
//!         lost wake-up scenario (a peer that registers while the topic is idle must be served without
//!         unrelated traffic).
//!  * C02/C10: raw requestors and repliers through the real server (slow-reading requestor, racing
//!         repliers).

use super::*;
use crate::common::{write_replay, StageReport, Violation};
use bytes::Bytes;
use selium_protocol::error_codes::REPLIER_ALREADY_BOUND;
use selium_protocol::{MessagePayload, PublisherPayload, ReplierPayload, RequestorPayload, SubscriberPayload, TopicName};
use serde_json::json;
use std::collections::HashMap;
use std::sync::atomic::AtomicU64;
use std::time::Instant;

fn reg(kind: usize, topic: &str) -> Frame {
    let t = TopicName::try_from(topic).unwrap();
    match kind {
        0 => Frame::RegisterPublisher(PublisherPayload { topic: t, retention_policy: 0, operations: vec![] }),
        1 => Frame::RegisterSubscriber(SubscriberPayload { topic: t, retention_policy: 0, operations: vec![] }),
        2 => Frame::RegisterReplier(ReplierPayload { topic: t }),
        _ => Frame::RegisterRequestor(RequestorPayload { topic: t }),
    }
}

async fn open(conn: &RawConn, kind: usize, topic: &str) -> std::result::Result<BiStream, String> {
    let (s, r) = conn.open(reg(kind, topic), Duration::from_secs(8)).await.map_err(|e| format!("open: {e}"))?;
    if r != Some(Frame::Ok) {
        return Err(format!("registration on {} answered {:?}", topic, r));
    }
    Ok(s)
}

fn m(headers: Option<HashMap<String, String>>, body: Vec<u8>) -> Frame {
    Frame::Message(MessagePayload { headers, message: Bytes::from(body) })
}

// ---------------------------------------------------------------------------------------
// C01 at L3
// ---------------------------------------------------------------------------------------
async fn c01_scenario(addr: SocketAddr, certs: &Certs, id: u64, n_msgs: usize, size: usize) -> std::result::Result<(u64, Vec<(String, String)>), String> {
    let topics = [format!("/l3c01x{}/abc-def", id), format!("/l3c01x{}/abc_def", id), format!("/l3c01x{}a/bc-def", id)];
    let mut sub_tasks = vec![];
    let total_expected = Arc::new(AtomicU64::new(0));
    let mut publishers = vec![];
    for (ti, topic) in topics.iter().enumerate() {
        // subscribers: one fast, one slow (separate connections so that flow control is per subscriber)
        for slow in [false, true] {
            let c = raw_connect(addr, certs).await.map_err(|e| e.to_string())?;
            let mut s = open(&c, 1, topic).await?;
            let topic2 = topic.clone();
            let counter = total_expected.clone();
            sub_tasks.push(tokio::spawn(async move {
                let _keep = c;
                // (publisher tag) -> sequence numbers seen
                let mut seen: HashMap<String, Vec<u64>> = HashMap::new();
                let mut alien: Vec<String> = vec![];
                let mut done = 0;
                let mut n = 0u64;
                loop {
                    match tokio::time::timeout(Duration::from_secs(20), s.next()).await {
                        Ok(Some(Ok(Frame::Message(msg)))) => {
                            n += 1;
                            if slow && n % 7 == 0 {
                                tokio::time::sleep(Duration::from_millis(2)).await;
                            }
                            let head = String::from_utf8_lossy(&msg.message[..msg.message.len().min(80)]).to_string();
                            let parts: Vec<&str> = head.split('|').collect();
                            if parts.len() < 4 {
                                alien.push(head);
                                continue;
                            }
                            if parts[0] != topic2 {
                                alien.push(format!("message of topic {} arrived on {}", parts[0], topic2));
                                continue;
                            }
                            if parts[2] == "sentinel" {
                                continue;
                            }
                            let seq: u64 = parts[2].parse().unwrap_or(u64::MAX);
                            seen.entry(parts[1].to_string()).or_default().push(seq);
                            counter.fetch_add(1, Ordering::SeqCst);
                            if parts[3] == "last" {
                                done += 1;
                                if done == 2 {
                                    break;
                                }
                            }
                        }
                        Ok(Some(Ok(_))) => {}
                        _ => break,
                    }
                }
                (topic2, slow, seen, alien)
            }));
        }
        for p in 0..2 {
            let c = raw_connect(addr, certs).await.map_err(|e| e.to_string())?;
            let s = open(&c, 0, topic).await?;
            publishers.push((ti, p, c, s));
        }
    }
    // establish every registration: sentinels from one publisher per topic until… we cannot read the
    // subscribers here (their tasks own them), so give the routers a generous moment instead and rely
    // on the contiguity oracle (a late joiner sees a contiguous tail, which is allowed)
    tokio::time::sleep(Duration::from_millis(400)).await;
    let mut pub_tasks = vec![];
    for (ti, p, c, mut s) in publishers {
        let topic = topics[ti].clone();
        pub_tasks.push(tokio::spawn(async move {
            let _keep = c;
            for i in 0..n_msgs {
                let mut body = format!("{}|p{}|{}|{}|", topic, p, i, if i + 1 == n_msgs { "last" } else { "more" }).into_bytes();
                body.resize(body.len().max(size), b'.');
                if s.send(m(None, body)).await.is_err() {
                    return false;
                }
            }
            // keep the stream open until the subscribers are done (finishing is C03's business)
            tokio::time::sleep(Duration::from_secs(30)).await;
            true
        }));
    }
    let mut findings = vec![];
    for t in sub_tasks {
        let (topic, slow, seen, alien) = tokio::time::timeout(Duration::from_secs(120), t).await.map_err(|_| "watchdog: subscriber did not finish in 120 s".to_string())?.map_err(|e| e.to_string())?;
        for a in alien {
            findings.push(("foreign-message".to_string(), format!("{} subscriber of {}: {}", if slow { "slow" } else { "fast" }, topic, a)));
        }
        for p in ["p0", "p1"] {
            let d = seen.get(p).cloned().unwrap_or_default();
            if d.is_empty() {
                findings.push(("undelivered".into(), format!("{} subscriber of {} received nothing from {}", if slow { "slow" } else { "fast" }, topic, p)));
                continue;
            }
            for w in d.windows(2) {
                if w[1] != w[0] + 1 {
                    let kind = if w[1] == w[0] { "duplicate" } else if w[1] < w[0] { "reorder" } else { "gap" };
                    findings.push((kind.into(), format!("{} subscriber of {}: sequence of {} jumps {} -> {}", if slow { "slow" } else { "fast" }, topic, p, w[0], w[1])));
                    break;
                }
            }
            if *d.last().unwrap() != n_msgs as u64 - 1 {
                findings.push(("undelivered-tail".into(), format!("{} subscriber of {}: last item of {} is {} of {}", if slow { "slow" } else { "fast" }, topic, p, d.last().unwrap(), n_msgs - 1)));
            }
        }
    }
    for t in pub_tasks {
        t.abort();
    }
    Ok((total_expected.load(Ordering::SeqCst), findings))
}

pub fn run_c01(rep: &mut StageReport, tier: &str, _seed: u64) {
    let n = if tier == "thorough" { 12 } else { 1 };
    let rt = runtime(6);
    let mark = panic_mark();
    for i in 0..n {
        rep.evaluations += 1;
        let certs = match gen_certs() {
            Ok(c) => c,
            Err(e) => {
                rep.inconclusive(&format!("certs: {e}"));
                continue;
            }
        };
        let (msgs, size) = if i % 2 == 0 { (300, 8000) } else { (2000, 60) };
        let r = rt.block_on(async {
            let server = start_server(&certs).map_err(|e| e.to_string())?;
            let r = tokio::time::timeout(Duration::from_secs(240), c01_scenario(server.addr, &certs, i as u64, msgs, size)).await.map_err(|_| "watchdog: scenario did not finish in 240 s".to_string())?;
            server.stop();
            r
        });
        match r {
            Ok((delivered, findings)) => {
                rep.count("l3_messages_delivered", delivered);
                if findings.is_empty() {
                    rep.distinct.insert(0xC01_0000 + i as u64);
                    rep.distinct.insert(0xC01_8000 + i as u64);
                    rep.sample(json!({"l3_scenario": {"topics": 3, "publishers_per_topic": 2, "subscribers_per_topic": "1 fast + 1 slow", "messages_per_publisher": msgs, "payload_bytes": size}, "deliveries_observed": delivered, "verdict": "every subscriber saw each publisher's items once, in order, through the last; nothing crossed topics"}));
                }
                for (sig, detail) in findings {
                    let replay = write_replay("C01", &format!("l3-{}", sig), i as u64, json!({"property": "C01", "detail": detail}));
                    rep.violation(Violation { signature: format!("C01/l3/{}", sig), detail, replay });
                }
            }
            Err(e) => rep.inconclusive(&e),
        }
    }
    // first registrations on fresh topics racing each other
    {
        rep.evaluations += 1;
        match gen_certs() {
            Err(e) => rep.inconclusive(&format!("certs: {e}")),
            Ok(certs) => {
                let rounds = if tier == "thorough" { 300 } else { 45 };
                let r = rt.block_on(async {
                    let server = start_server(&certs).map_err(|e| e.to_string())?;
                    let r = tokio::time::timeout(Duration::from_secs(300), super::wirepeers::concurrent_first_registrations(server.addr, &certs, rounds, 1)).await.map_err(|_| "watchdog: concurrent-registration scenario did not finish in 300 s".to_string())?;
                    server.stop();
                    r
                });
                match r {
                    Ok((n, findings)) => {
                        rep.count("l3_fresh_topics_with_racing_first_registrations", n);
                        if findings.iter().all(|f| f.0.starts_with("mixed-patterns")) {
                            rep.distinct.insert(0xC01_E000);
                        }
                        // (a topic that accepted both messaging patterns is C11's finding, not C01's)
                        for (sig, detail) in findings.into_iter().filter(|f| !f.0.starts_with("mixed-patterns")) {
                            let replay = write_replay("C01", &format!("l3-{}", sig.replace('/', "_")), 0, json!({"property": "C01", "detail": detail}));
                            rep.violation(Violation { signature: format!("C01/l3/{}", sig), detail, replay });
                        }
                    }
                    Err(e) => rep.inconclusive(&e),
                }
            }
        }
    }
    // a pipelining publisher and a half-closed subscriber
    {
        rep.evaluations += 1;
        match gen_certs() {
            Err(e) => rep.inconclusive(&format!("certs: {e}")),
            Ok(certs) => {
                let r = rt.block_on(async {
                    let server = start_server(&certs).map_err(|e| e.to_string())?;
                    let r = tokio::time::timeout(Duration::from_secs(120), super::wirepeers::c01_pipelined_and_half_closed(server.addr, &certs, 1)).await.map_err(|_| "watchdog: pipelined-publisher scenario did not finish in 120 s".to_string())?;
                    server.stop();
                    r
                });
                match r {
                    Ok((n, findings)) => {
                        rep.count("l3_deliveries_from_a_pipelining_publisher", n);
                        if findings.is_empty() {
                            rep.distinct.insert(0xC01_D000);
                        }
                        for (sig, detail) in findings {
                            let replay = write_replay("C01", &format!("l3-{}", sig.replace('/', "_")), 0, json!({"property": "C01", "detail": detail}));
                            rep.violation(Violation { signature: format!("C01/l3/{}", sig), detail, replay });
                        }
                    }
                    Err(e) => rep.inconclusive(&e),
                }
            }
        }
    }
    // frames at the size limit from an independent implementation of the wire format
    for i in 0..(if tier == "thorough" { 4 } else { 1 }) {
        rep.evaluations += 1;
        let certs = match gen_certs() {
            Ok(c) => c,
            Err(e) => {
                rep.inconclusive(&format!("certs: {e}"));
                continue;
            }
        };
        let r = rt.block_on(async {
            let server = start_server(&certs).map_err(|e| e.to_string())?;
            let r = tokio::time::timeout(Duration::from_secs(120), super::wirepeers::c01_boundary(server.addr, &certs, i as u64)).await.map_err(|_| "watchdog: limit-sized scenario did not finish in 120 s".to_string())?;
            server.stop();
            r
        });
        match r {
            Ok((delivered, findings)) => {
                rep.count("l3_limit_sized_deliveries", delivered);
                if findings.is_empty() {
                    rep.distinct.insert(0xC01_F000 + i as u64);
                    rep.sample(json!({"l3_scenario": "independent wire publisher: messages whose encoded payload is limit, limit−1 … limit−17 and small, with and without headers, to two subscribers", "deliveries_observed": delivered, "verdict": "both subscribers received every message unchanged and in order"}));
                }
                for (sig, detail) in findings {
                    let replay = write_replay("C01", &format!("l3-{}", sig.replace('/', "_")), i as u64, json!({"property": "C01", "detail": detail}));
                    rep.violation(Violation { signature: format!("C01/l3/{}", sig), detail, replay });
                }
            }
            Err(e) => rep.inconclusive(&e),
        }
    }
    for p in repo_panics_since(mark) {
        rep.violation(Violation { signature: format!("C01/l3/panic/{}", crate::routersim::exec::normalise_location(&p.location)), detail: format!("panic at {}: {}", p.location, p.message), replay: String::new() });
    }
    rep.rule = "one evaluation = one L3 scenario over an in-process server: 3 topics with near-colliding names × 2 raw publishers × (1 fast + 1 slow raw subscriber); oracle: per (subscriber, publisher) a contiguous in-order run through the last item, nothing from another topic".into();
}

// ---------------------------------------------------------------------------------------
// C09 at L3: child process with a current-thread runtime and a heartbeat
// ---------------------------------------------------------------------------------------
pub const C09_SCENARIOS: [&str; 10] = ["no-peers", "subscribers-only", "publishers-only", "replier-only", "requestor-only", "rejected-replier", "both-sides", "late-requestor-idle-topic", "stalled-requestor-resumes", "late-subscriber-and-publisher-idle-topic"];

async fn expect_reply(s: &mut BiStream, body: &[u8], within: Duration) -> std::result::Result<(), String> {
    let mut h = HashMap::new();
    h.insert("req_id".to_string(), "1".to_string());
    s.send(m(Some(h), body.to_vec())).await.map_err(|e| format!("send request: {e}"))?;
    match tokio::time::timeout(within, s.next()).await {
        Ok(Some(Ok(Frame::Message(r)))) if &r.message[..] == body => Ok(()),
        Ok(other) => Err(format!("unexpected answer {:?}", other.map(|o| o.map(|f| f.get_type())))),
        Err(_) => Err(format!("no reply within {:?} although nothing else was going on", within)),
    }
}

fn spawn_echo(mut rep: BiStream) -> tokio::task::JoinHandle<()> {
    tokio::spawn(async move {
        while let Some(Ok(f)) = rep.next().await {
            if let Frame::Message(msg) = f {
                if rep.send(Frame::Message(msg)).await.is_err() {
                    break;
                }
            }
        }
    })
}

async fn c09_scenario(addr: SocketAddr, certs: &Certs, name: &str) -> std::result::Result<(), String> {
    let c = raw_connect(addr, certs).await.map_err(|e| e.to_string())?;
    let t = format!("/l3c09/{}", name.replace('_', "-"));
    let idle = Duration::from_millis(1200);
    match name {
        "no-peers" => {
            tokio::time::sleep(idle).await;
        }
        "subscribers-only" => {
            let _a = open(&c, 1, &t).await?;
            let _b = open(&c, 1, &t).await?;
            tokio::time::sleep(idle).await;
        }
        "publishers-only" => {
            let mut a = open(&c, 0, &t).await?;
            let _b = open(&c, 0, &t).await?;
            let _ = a.send(m(None, b"nobody listens".to_vec())).await;
            tokio::time::sleep(idle).await;
        }
        "replier-only" => {
            let rep = open(&c, 2, &t).await?;
            let _e = spawn_echo(rep);
            tokio::time::sleep(idle).await;
            // the topic must still serve once a requestor arrives
            let mut rq = open(&c, 3, &t).await?;
            tokio::time::sleep(Duration::from_millis(300)).await;
            expect_reply(&mut rq, b"after replier-only", Duration::from_secs(4)).await?;
        }
        "requestor-only" => {
            let mut rq = open(&c, 3, &t).await?;
            let mut h = HashMap::new();
            h.insert("req_id".to_string(), "0".to_string());
            let _ = rq.send(m(Some(h), b"nobody answers".to_vec())).await;
            tokio::time::sleep(idle).await;
            let rep = open(&c, 2, &t).await?;
            let _e = spawn_echo(rep);
            tokio::time::sleep(Duration::from_millis(300)).await;
            // (the unanswered request may or may not be delivered to the late replier: at most once)
            let _ = tokio::time::timeout(Duration::from_millis(300), rq.next()).await;
            expect_reply(&mut rq, b"after requestor-only", Duration::from_secs(4)).await?;
        }
        "rejected-replier" => {
            let rep = open(&c, 2, &t).await?;
            let _e = spawn_echo(rep);
            tokio::time::sleep(Duration::from_millis(300)).await;
            let mut rep2 = open(&c, 2, &t).await?;
            match tokio::time::timeout(Duration::from_secs(4), rep2.next()).await {
                Ok(Some(Ok(Frame::Error(e)))) if e.code == REPLIER_ALREADY_BOUND => {}
                other => return Err(format!("second replier on an idle topic was not told replier-already-bound within 4 s: {:?}", other.map(|o| o.map(|r| r.map(|f| f.get_type()))))),
            }
            tokio::time::sleep(idle).await;
        }
        "both-sides" => {
            let rep = open(&c, 2, &t).await?;
            let _e = spawn_echo(rep);
            let mut rq = open(&c, 3, &t).await?;
            tokio::time::sleep(idle).await;
            expect_reply(&mut rq, b"both sides", Duration::from_secs(4)).await?;
        }
        "stalled-requestor-resumes" => {
            // requestor X gives the server a 64-byte stream window and does not read: its reply stays parked at the
            // server for seven seconds of wall-clock time. Meanwhile requestor Y asks once. When X finally reads (or
            // whatever the router decided to do with X in the meantime), Y's request must be answered without any
            // further traffic waking the router.
            let rep = open(&c, 2, &t).await?;
            let _e = spawn_echo(rep);
            let cfg = raw_client_config_window(&read_der(&certs.client_ca()).map_err(|e| e.to_string())?, ClientIdentity::Cert(read_der(&certs.client_cert()).map_err(|e| e.to_string())?, read_der(&certs.client_key()).map_err(|e| e.to_string())?), Some(64)).map_err(|e| e.to_string())?;
            let cx = raw_connect_with(addr, cfg).await.map_err(|e| e.to_string())?;
            let mut x = open(&cx, 3, &t).await?;
            // several Ys: the reply router visits its sinks in hash order, so some of them come after X
            let mut ys = vec![];
            for _ in 0..5 {
                ys.push(open(&c, 3, &t).await?);
            }
            tokio::time::sleep(Duration::from_millis(300)).await;
            let mut h = HashMap::new();
            h.insert("req_id".to_string(), "0".to_string());
            // 40 × 600-byte replies for X: far more than X's window and than the 8 KiB its framed writer buffers, so that
            // the router is parked on X's sink with a reply in hand
            for k in 0..40u8 {
                x.send(m(Some(h.clone()), vec![b'a' + (k % 26); 600])).await.map_err(|e| e.to_string())?;
            }
            tokio::time::sleep(Duration::from_millis(6500)).await;
            for y in ys.iter_mut() {
                y.send(m(Some(h.clone()), b"asked while X was stalled".to_vec())).await.map_err(|e| format!("Y send: {e}"))?;
            }
            tokio::time::sleep(Duration::from_millis(1000)).await;
            // X takes delivery now (if its stream still exists)
            let drain = tokio::spawn(async move {
                while let Ok(Some(Ok(_))) = tokio::time::timeout(Duration::from_secs(8), x.next()).await {}
            });
            let deadline = tokio::time::Instant::now() + Duration::from_secs(6);
            let mut unanswered = 0;
            for y in ys.iter_mut() {
                match tokio::time::timeout_at(deadline, y.next()).await {
                    Ok(Some(Ok(Frame::Message(r)))) if &r.message[..] == b"asked while X was stalled" => {}
                    Ok(other) => {
                        drain.abort();
                        return Err(format!("a requestor got {:?} instead of its reply", other.map(|o| o.map(|f| f.get_type()))));
                    }
                    Err(_) => unanswered += 1,
                }
            }
            drain.abort();
            if unanswered > 0 {
                return Err(format!("{} of 5 requests, sent by other requestors while one requestor had been stalled for 6.5 s, were still unanswered 6 s after the stalled requestor resumed reading, although nothing else was going on", unanswered));
            }
        }
        "late-requestor-idle-topic" => {
            // replier and requestor A registered and idle; requestor C joins; its first request must be
            // answered without any unrelated traffic waking the router
            let rep = open(&c, 2, &t).await?;
            let _e = spawn_echo(rep);
            let _a = open(&c, 3, &t).await?;
            tokio::time::sleep(Duration::from_millis(500)).await;
            let _b = open(&c, 3, &t).await?;
            let mut cc = open(&c, 3, &t).await?;
            tokio::time::sleep(Duration::from_millis(500)).await;
            expect_reply(&mut cc, b"late requestor", Duration::from_secs(4)).await?;
        }
        _ => {
            // subscriber 1 registered and idle; then subscriber 2 and a publisher register back to back
            let mut s1 = open(&c, 1, &t).await?;
            tokio::time::sleep(Duration::from_millis(500)).await;
            let mut s2 = open(&c, 1, &t).await?;
            let mut p = open(&c, 0, &t).await?;
            tokio::time::sleep(Duration::from_millis(500)).await;
            p.send(m(None, b"late publisher".to_vec())).await.map_err(|e| e.to_string())?;
            for (n, s) in [(1, &mut s1), (2, &mut s2)] {
                match tokio::time::timeout(Duration::from_secs(4), s.next()).await {
                    Ok(Some(Ok(Frame::Message(x)))) if &x.message[..] == b"late publisher" => {}
                    other => return Err(format!("subscriber {} did not receive the late publisher's message within 4 s although nothing else was going on: {:?}", n, other.map(|o| o.map(|r| r.map(|f| f.get_type()))))),
                }
            }
        }
    }
    Ok(())
}

/// child mode: exit 0 = fine, 7 = heartbeat frozen (a poll never returned), 8 = scenario failed (stdout has why)
pub fn c09_child_main(name: &str, certs_dir: &str) {
    let certs = Certs { dir: PathBuf::from(certs_dir) };
    let beat = Arc::new(AtomicU64::new(0));
    let done = Arc::new(AtomicU64::new(0));
    {
        let (beat, done) = (beat.clone(), done.clone());
        std::thread::spawn(move || {
            let mut last = 0;
            let mut frozen_since: Option<Instant> = None;
            loop {
                std::thread::sleep(Duration::from_millis(250));
                if done.load(Ordering::SeqCst) == 1 {
                    return;
                }
                let b = beat.load(Ordering::SeqCst);
                if b == last {
                    let since = *frozen_since.get_or_insert_with(Instant::now);
                    if since.elapsed() > Duration::from_secs(10) {
                        println!("FROZEN: the single runtime thread has not scheduled the heartbeat task for 10 s");
                        std::process::exit(7);
                    }
                } else {
                    frozen_since = None;
                    last = b;
                }
            }
        });
    }
    let rt = tokio::runtime::Builder::new_current_thread().enable_all().build().unwrap();
    let name = name.to_string();
    let r = rt.block_on(async move {
        let hb = beat.clone();
        tokio::spawn(async move {
            loop {
                hb.fetch_add(1, Ordering::SeqCst);
                tokio::time::sleep(Duration::from_millis(10)).await;
            }
        });
        let server = start_server(&certs).map_err(|e| e.to_string())?;
        c09_scenario(server.addr, &certs, &name).await
    });
    done.store(1, Ordering::SeqCst);
    match r {
        Ok(()) => std::process::exit(0),
        Err(e) => {
            println!("SCENARIO-FAILED: {}", e);
            std::process::exit(8);
        }
    }
}

pub fn run_c09(rep: &mut StageReport, tier: &str, _seed: u64, exe: &str) {
    let repeats = if tier == "thorough" { 5 } else { 1 };
    rep.max_samples = 10;
    for r in 0..repeats {
        for name in C09_SCENARIOS {
            rep.evaluations += 1;
            let certs = match gen_certs() {
                Ok(c) => c,
                Err(e) => {
                    rep.inconclusive(&format!("certs: {e}"));
                    continue;
                }
            };
            let t0 = Instant::now();
            let child = std::process::Command::new(exe).args(["--c09-child", name, "--certs", &certs.dir.to_string_lossy()]).stdout(std::process::Stdio::piped()).stderr(std::process::Stdio::null()).spawn();
            let mut child = match child {
                Ok(c) => c,
                Err(e) => {
                    rep.inconclusive(&format!("spawn: {e}"));
                    continue;
                }
            };
            let mut status = None;
            while t0.elapsed() < Duration::from_secs(90) {
                match child.try_wait() {
                    Ok(Some(s)) => {
                        status = Some(s);
                        break;
                    }
                    _ => std::thread::sleep(Duration::from_millis(50)),
                }
            }
            let mut out = String::new();
            if status.is_none() {
                let _ = child.kill();
            }
            if let Some(mut so) = child.stdout.take() {
                use std::io::Read;
                let _ = so.read_to_string(&mut out);
            }
            let _ = child.wait();
            let _ = std::fs::remove_dir_all(&certs.dir);
            match status.and_then(|s| s.code()) {
                Some(0) => {
                    rep.distinct.insert(crate::common::mix(r as u64, crate::common::fnv(name.as_bytes())));
                    rep.sample(json!({"l3_role_combination": name, "runtime": "current-thread, heartbeat every 10 ms", "verdict": "heartbeat never froze; the topic served afterwards", "wall_ms": t0.elapsed().as_millis() as u64}));
                }
                Some(7) => {
                    let detail = format!("role combination `{}` on a single-threaded runtime: {}", name, out.trim());
                    let replay = write_replay("C09", &format!("l3-frozen-{}", name), r as u64, json!({"property": "C09", "detail": detail}));
                    rep.violation(Violation { signature: format!("C09/l3/runtime-frozen/{}", name), detail, replay });
                }
                Some(8) => {
                    let detail = format!("role combination `{}`: {}", name, out.trim());
                    let replay = write_replay("C09", &format!("l3-stalled-{}", name), r as u64, json!({"property": "C09", "detail": detail}));
                    rep.violation(Violation { signature: format!("C09/l3/not-woken/{}", name), detail, replay });
                }
                other => rep.inconclusive(&format!("C09 child for `{}` ended with {:?} ({})", name, other, out.trim().chars().take(200).collect::<String>())),
            }
        }
    }
    rep.rule = "one evaluation = one role combination against the real server on a current-thread runtime in a child process; a watchdog OS thread reports a heartbeat frozen for 10 s (a router poll that never returns), and each scenario ends with traffic that must be served without any unrelated wake-up; distinct = (round, combination)".into();
}

// ---------------------------------------------------------------------------------------
// C02 / C10 at L3
// ---------------------------------------------------------------------------------------
async fn c02_scenario(addr: SocketAddr, certs: &Certs, id: u64, n_req: usize) -> std::result::Result<(u64, Vec<(String, String)>), String> {
    let topic = format!("/l3c02/top{}", id);
    let rc = raw_connect(addr, certs).await.map_err(|e| e.to_string())?;
    let rep = open(&rc, 2, &topic).await?;
    // replier: answers in reverse order in bursts of 8, echoing headers; payload "re:"+payload
    let (mut rw, mut rr) = rep.split();
    let seen_cids = Arc::new(Mutex::new(HashMap::<String, String>::new()));
    let sc2 = seen_cids.clone();
    let replier = tokio::spawn(async move {
        let mut batch: Vec<MessagePayload> = vec![];
        loop {
            match tokio::time::timeout(Duration::from_millis(150), rr.next()).await {
                Ok(Some(Ok(Frame::Message(mm)))) => {
                    let who = String::from_utf8_lossy(&mm.message).split('|').next().unwrap_or("").to_string();
                    if let Some(c) = mm.headers.as_ref().and_then(|h| h.get("cid")) {
                        sc2.lock().unwrap().insert(format!("{}@{}", who, c), who.clone());
                    }
                    batch.push(mm);
                    if batch.len() < 8 {
                        continue;
                    }
                }
                Ok(Some(Ok(_))) => continue,
                Ok(Some(Err(_))) | Ok(None) => break,
                Err(_) => {}
            }
            while let Some(mm) = batch.pop() {
                let mut body = b"re:".to_vec();
                body.extend_from_slice(&mm.message);
                if rw.send(Frame::Message(MessagePayload { headers: mm.headers, message: body.into() })).await.is_err() {
                    return;
                }
            }
        }
    });
    // a fourth requestor sends, in the middle of it all, requests that fit the frame limit exactly as sent but no longer
    // once the server has added its routing tag: the server drops them; nobody else's exchange may notice
    let boundary = {
        let c = raw_connect(addr, certs).await.map_err(|e| e.to_string())?;
        let s = open(&c, 3, &topic).await?;
        tokio::spawn(async move {
            let _keep = c;
            let (mut w, _r) = s.split();
            for (k, d) in [0usize, 3, 11].into_iter().enumerate() {
                if k > 0 {
                    tokio::time::sleep(Duration::from_millis(25)).await;
                }
                // no headers: 1 + 8 + payload bytes
                let body = vec![0x5au8; 1024 * 1024 - 9 - d];
                if w.send(m(None, body)).await.is_err() {
                    break;
                }
            }
            tokio::time::sleep(Duration::from_secs(60)).await;
        })
    };
    let mut tasks = vec![];
    for q in 0..3usize {
        let c = raw_connect(addr, certs).await.map_err(|e| e.to_string())?;
        let s = open(&c, 3, &topic).await?;
        let slow = q == 2;
        tasks.push(tokio::spawn(async move {
            let _keep = c;
            let (mut w, mut r) = s.split();
            let name = format!("q{}", q);
            let n2 = name.clone();
            let writer = tokio::spawn(async move {
                for i in 0..n_req {
                    let mut h = HashMap::new();
                    h.insert("req_id".to_string(), i.to_string()); // collides across requestors on purpose
                    if i % 5 == 0 {
                        h.insert("cid".to_string(), ((q + 1) % 3).to_string()); // forged origin
                    }
                    let mut body = format!("{}|{}|", n2, i).into_bytes();
                    body.resize(600, b'.');
                    if w.send(m(Some(h), body)).await.is_err() {
                        break;
                    }
                }
                tokio::time::sleep(Duration::from_secs(60)).await;
            });
            let mut got: Vec<(String, u64, Option<HashMap<String, String>>)> = vec![];
            let mut n = 0;
            while got.len() < n_req {
                match tokio::time::timeout(Duration::from_secs(15), r.next()).await {
                    Ok(Some(Ok(Frame::Message(mm)))) => {
                        n += 1;
                        if slow && n % 5 == 0 {
                            tokio::time::sleep(Duration::from_millis(3)).await;
                        }
                        let text = String::from_utf8_lossy(&mm.message[..mm.message.len().min(40)]).to_string();
                        let parts: Vec<&str> = text.split('|').collect();
                        let who = parts.first().map(|s| s.trim_start_matches("re:").to_string()).unwrap_or_default();
                        let seq = parts.get(1).and_then(|s| s.parse().ok()).unwrap_or(u64::MAX);
                        got.push((who, seq, mm.headers));
                    }
                    Ok(Some(Ok(_))) => {}
                    _ => break,
                }
            }
            writer.abort();
            (name, got)
        }));
    }
    let mut findings = vec![];
    let mut total = 0u64;
    for t in tasks {
        let (name, got) = tokio::time::timeout(Duration::from_secs(120), t).await.map_err(|_| "watchdog: requestor did not finish".to_string())?.map_err(|e| e.to_string())?;
        total += got.len() as u64;
        let mut seqs: Vec<u64> = vec![];
        for (who, seq, headers) in &got {
            if *who != name {
                findings.push(("reply-misrouted".to_string(), format!("{} received a reply addressed to {} (seq {})", name, who, seq)));
            }
            if headers.as_ref().map_or(false, |h| h.contains_key("cid")) {
                findings.push(("tag-not-stripped".into(), format!("{} received a reply still carrying the routing tag", name)));
            }
            if headers.as_ref().and_then(|h| h.get("req_id")).map(|s| s.as_str()) != Some(seq.to_string().as_str()) {
                findings.push(("headers-altered".into(), format!("{}: reply for seq {} carries headers {:?}", name, seq, headers)));
            }
            seqs.push(*seq);
        }
        seqs.sort();
        let before = seqs.len();
        seqs.dedup();
        if seqs.len() != before {
            findings.push(("reply-duplicated".into(), format!("{} received {} replies for {} distinct requests", name, before, seqs.len())));
        }
        if seqs.len() < n_req {
            findings.push(("reply-lost".into(), format!("{} received replies for {} of its {} requests (replier bound throughout, nothing else failed)", name, seqs.len(), n_req)));
        }
    }
    replier.abort();
    boundary.abort();
    // origin tags: each requestor exactly one tag, tags distinct
    let cids = seen_cids.lock().unwrap();
    let mut per: HashMap<String, Vec<String>> = HashMap::new();
    for k in cids.keys() {
        let (who, cid) = k.split_once('@').unwrap();
        per.entry(who.to_string()).or_default().push(cid.to_string());
    }
    let mut all_tags = vec![];
    for (who, tags) in &per {
        if tags.len() != 1 {
            findings.push(("origin-tag-inconsistent".into(), format!("requests of {} reached the replier with origin tags {:?} (forged tags were sent)", who, tags)));
        }
        all_tags.extend(tags.clone());
    }
    let n_tags = all_tags.len();
    all_tags.sort();
    all_tags.dedup();
    if all_tags.len() != n_tags {
        findings.push(("origin-tag-shared".into(), format!("two requestors share an origin tag: {:?}", per)));
    }
    Ok((total, findings))
}

pub fn run_c02(rep: &mut StageReport, tier: &str, _seed: u64) {
    let n = if tier == "thorough" { 10 } else { 1 };
    let rt = runtime(6);
    let mark = panic_mark();
    for i in 0..n {
        rep.evaluations += 1;
        let certs = match gen_certs() {
            Ok(c) => c,
            Err(e) => {
                rep.inconclusive(&format!("certs: {e}"));
                continue;
            }
        };
        let n_req = if i % 2 == 0 { 400 } else { 3000 };
        let r = rt.block_on(async {
            let server = start_server(&certs).map_err(|e| e.to_string())?;
            let r = tokio::time::timeout(Duration::from_secs(240), c02_scenario(server.addr, &certs, i as u64, n_req)).await.map_err(|_| "watchdog: scenario did not finish in 240 s".to_string())?;
            server.stop();
            r
        });
        match r {
            Ok((total, findings)) => {
                rep.count("l3_replies_received", total);
                if findings.is_empty() {
                    rep.distinct.insert(0xC02_0000 + i as u64);
                    rep.distinct.insert(0xC02_8000 + i as u64);
                    rep.sample(json!({"l3_scenario": {"requestors": "2 fast + 1 slow-reading, colliding req_ids, every 5th request forges its cid", "requests_each": n_req, "replier": "answers in reverse order in bursts of 8"}, "replies_observed": total, "verdict": "every requestor got exactly its own replies, tag stripped; origin tags consistent and distinct"}));
                }
                for (sig, detail) in findings {
                    let replay = write_replay("C02", &format!("l3-{}", sig), i as u64, json!({"property": "C02", "detail": detail}));
                    rep.violation(Violation { signature: format!("C02/l3/{}", sig), detail, replay });
                }
            }
            Err(e) => rep.inconclusive(&e),
        }
    }
    for p in repo_panics_since(mark) {
        rep.violation(Violation { signature: format!("C02/l3/panic/{}", crate::routersim::exec::normalise_location(&p.location)), detail: format!("panic at {}: {}", p.location, p.message), replay: String::new() });
    }
    rep.rule = "one evaluation = one L3 scenario: three raw requestors (one reading slowly → real back-pressure on the reply leg) and one raw replier answering out of order through the in-process server; oracle: each requestor receives exactly its own replies once, tag stripped, other headers intact; origin tags consistent per requestor and distinct".into();
}

async fn c10_scenario(addr: SocketAddr, certs: &Certs, id: u64) -> std::result::Result<Vec<(String, String)>, String> {
    let topic = format!("/l3c10/top{}", id);
    let mut findings = vec![];
    let c = raw_connect(addr, certs).await.map_err(|e| e.to_string())?;
    let mut rq = open(&c, 3, &topic).await?;
    // five repliers race to bind
    let mut hs = vec![];
    for i in 0..5 {
        let (certs, topic) = (certs.clone(), topic.clone());
        hs.push(tokio::spawn(async move {
            let c = raw_connect(addr, &certs).await.map_err(|e| e.to_string())?;
            let mut s = open(&c, 2, &topic).await?;
            // bound repliers hear nothing until a request arrives; rejected ones get Error(5) and then the end of stream
            match tokio::time::timeout(Duration::from_millis(1500), s.next()).await {
                Ok(Some(Ok(Frame::Error(e)))) if e.code == REPLIER_ALREADY_BOUND => {
                    let closed = matches!(tokio::time::timeout(Duration::from_secs(5), s.next()).await, Ok(None) | Ok(Some(Err(_))));
                    Ok::<_, String>((i, "rejected", closed, None, c))
                }
                Ok(other) => Ok((i, "odd", false, Some(format!("{:?}", other.map(|r| r.map(|f| f.get_type())))), c)),
                Err(_) => {
                    // silent: presumably bound
                    Ok((i, "silent", false, None, {
                        REPLIER_KEEP.lock().unwrap().push(s);
                        c
                    }))
                }
            }
        }));
    }
    let mut silent = vec![];
    let mut keep_conns = vec![];
    for h in hs {
        let (i, what, closed, odd, conn) = h.await.map_err(|e| e.to_string())??;
        keep_conns.push(conn);
        match what {
            "rejected" if !closed => findings.push(("rejected-replier-not-closed".to_string(), format!("replier {} received replier-already-bound but its stream was not closed within 5 s", i))),
            "rejected" => {}
            "silent" => silent.push(i),
            _ => findings.push(("rejected-replier-odd-frame".into(), format!("replier {} saw {:?}", i, odd))),
        }
    }
    if silent.len() != 1 {
        findings.push(("not-exactly-one-bound".into(), format!("of 5 racing repliers {} were neither rejected nor served: {:?} (expected exactly one bound)", silent.len(), silent)));
    }
    // requests must reach exactly the bound one
    let mut streams = std::mem::take(&mut *REPLIER_KEEP.lock().unwrap());
    for n in 0..10 {
        let mut h = HashMap::new();
        h.insert("req_id".to_string(), n.to_string());
        rq.send(m(Some(h), format!("req-{}", n).into_bytes())).await.map_err(|e| e.to_string())?;
    }
    tokio::time::sleep(Duration::from_millis(500)).await;
    let mut receivers = 0;
    for s in streams.iter_mut() {
        let mut n = 0;
        while let Ok(Some(Ok(Frame::Message(_)))) = tokio::time::timeout(Duration::from_millis(100), s.next()).await {
            n += 1;
        }
        if n > 0 {
            receivers += 1;
            if n != 10 {
                findings.push(("requests-lost".into(), format!("the bound replier received {} of 10 requests", n)));
            }
        }
    }
    if receivers != 1 && silent.len() == 1 {
        findings.push(("not-exactly-one-receiver".into(), format!("{} repliers received the requests", receivers)));
    }
    // the bound replier leaves; a new one must bind and be served
    drop(streams);
    drop(keep_conns);
    let t0 = Instant::now();
    let mut rebound = false;
    while t0.elapsed() < Duration::from_secs(10) {
        let mut s = open(&c, 2, &topic).await?;
        match tokio::time::timeout(Duration::from_millis(400), s.next()).await {
            Ok(Some(Ok(Frame::Error(_)))) => {
                tokio::time::sleep(Duration::from_millis(100)).await;
                continue;
            }
            Ok(Some(Ok(Frame::Message(_)))) | Err(_) => {
                let _e = spawn_echo(s);
                if expect_reply(&mut rq, b"after rebinding", Duration::from_secs(3)).await.is_ok() {
                    rebound = true;
                }
                break;
            }
            _ => {
                tokio::time::sleep(Duration::from_millis(100)).await;
            }
        }
    }
    if !rebound {
        findings.push(("no-rebinding".into(), "after the bound replier's connection went away no new replier could bind and be served within 10 s".into()));
    }
    Ok(findings)
}

static REPLIER_KEEP: Mutex<Vec<BiStream>> = Mutex::new(Vec::new());

pub fn run_c10(rep: &mut StageReport, tier: &str, _seed: u64) {
    let n = if tier == "thorough" { 25 } else { 2 };
    let rt = runtime(6);
    let mark = panic_mark();
    let certs = match gen_certs() {
        Ok(c) => c,
        Err(e) => {
            rep.inconclusive(&format!("certs: {e}"));
            return;
        }
    };
    let results = rt.block_on(async {
        let server = start_server(&certs).map_err(|e| e.to_string())?;
        let mut out = vec![];
        for i in 0..n {
            out.push(tokio::time::timeout(Duration::from_secs(90), c10_scenario(server.addr, &certs, i as u64)).await.map_err(|_| "watchdog: scenario did not finish in 90 s".to_string()).and_then(|r| r));
        }
        // the very first registrations on a fresh topic race (first registrant slow to take its Ok)
        for i in 0..(if n > 2 { 12 } else { 3 }) {
            out.push(tokio::time::timeout(Duration::from_secs(60), super::wirepeers::c10_first_registrations_race(server.addr, &certs, i as u64)).await.map_err(|_| "watchdog: first-registrations race did not finish in 60 s".to_string()).and_then(|r| r));
        }
        // the rejected replier is slow to take the refusal (its window holds the Ok but not the error frame)
        for (i, (win, stall)) in [(32u32, 500u64), (12, 300), (48, 50), (60, 800), (9, 200), (20, 1200)].into_iter().enumerate() {
            if n <= 2 && i >= 3 {
                break;
            }
            out.push(tokio::time::timeout(Duration::from_secs(60), super::wirepeers::c10_slow_rejected_replier(server.addr, &certs, i as u64, win, stall, i % 3 == 1)).await.map_err(|_| "watchdog: slow rejected replier scenario did not finish in 60 s".to_string()).and_then(|r| r));
        }
        server.stop();
        Ok::<_, String>(out)
    });
    match results {
        Err(e) => rep.inconclusive(&e),
        Ok(list) => {
            for (i, r) in list.into_iter().enumerate() {
                rep.evaluations += 1;
                match r {
                    Ok(f) if f.is_empty() => {
                        rep.distinct.insert(0xC10_0000 + i as u64);
                        if i == 0 {
                            rep.sample(json!({"l3_scenario": "5 raw repliers race to bind one topic; 10 requests; the bound replier's connection is dropped; a new replier binds", "verdict": "exactly one bound and served, the others saw [Ok, Error(replier-already-bound)] and a closed stream, re-binding worked"}));
                        }
                    }
                    Ok(f) => {
                        for (sig, detail) in f {
                            let replay = write_replay("C10", &format!("l3-{}", sig.replace('/', "_")), i as u64, json!({"property": "C10", "detail": detail}));
                            rep.violation(Violation { signature: format!("C10/l3/{}", sig), detail, replay });
                        }
                    }
                    Err(e) => rep.inconclusive(&e),
                }
            }
        }
    }
    for p in repo_panics_since(mark) {
        rep.violation(Violation { signature: format!("C10/l3/panic/{}", crate::routersim::exec::normalise_location(&p.location)), detail: format!("panic at {}: {}", p.location, p.message), replay: String::new() });
    }
    rep.rule = "one evaluation = one L3 scenario: five raw repliers race to bind a topic on the in-process server, ten requests are sent, the bound replier's connection is dropped and a new replier must bind and be served".into();
}

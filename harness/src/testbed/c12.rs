//! C12 — streams re-establish themselves after connection loss, within the retry budget.
//! Fault injection: `Client::verif_close_connection()` (the hook, feature `verif`) on the client that
//! owns the stream under test; a user-space UDP relay re-targets *new* connections to a server with a
//! foreign CA (every reconnect attempt fails fast → exhaustion) or to a server on which the topic has
//! the other messaging pattern (re-registration refused with a non-retryable error).

use super::*;
use crate::common::{write_replay, StageReport, Violation};
use bytes::Bytes;
use selium::keep_alive::BackoffStrategy;
use selium::prelude::*;
use selium::std::codecs::StringCodec;
use selium::std::errors::{QuicError, SeliumError};
use selium_protocol::{MessagePayload, PublisherPayload, ReplierPayload, RequestorPayload, SubscriberPayload, TopicName};
use serde_json::json;
use std::collections::HashMap;
use std::time::Instant;
use tokio::net::UdpSocket;

// ---------------------------------------------------------------------------------------
// UDP relay
// ---------------------------------------------------------------------------------------
pub struct Relay {
    pub addr: SocketAddr,
    target: Arc<Mutex<SocketAddr>>,
    pub flows: Arc<AtomicU64>,
    /// generation counter: flows created in an older generation are black-holed (both directions)
    generation: Arc<AtomicU64>,
    task: tokio::task::JoinHandle<()>,
}

impl Relay {
    pub async fn start(target: SocketAddr) -> Result<Relay> {
        let front = Arc::new(UdpSocket::bind("127.0.0.1:0").await?);
        let addr = front.local_addr()?;
        let target = Arc::new(Mutex::new(target));
        let flows = Arc::new(AtomicU64::new(0));
        let generation = Arc::new(AtomicU64::new(0));
        let (t2, f2, g2) = (target.clone(), flows.clone(), generation.clone());
        let task = tokio::spawn(async move {
            let mut ups: HashMap<SocketAddr, (Arc<UdpSocket>, u64)> = HashMap::new();
            let mut buf = vec![0u8; 65536];
            loop {
                let (n, from) = match front.recv_from(&mut buf).await {
                    Ok(x) => x,
                    Err(_) => break,
                };
                let up = match ups.get(&from) {
                    Some((u, gen)) => {
                        if *gen < g2.load(Ordering::SeqCst) {
                            continue; // black-holed flow
                        }
                        u.clone()
                    }
                    None => {
                        // a new client endpoint = a new connection attempt: bind it to the current target
                        let u = match UdpSocket::bind("127.0.0.1:0").await {
                            Ok(u) => Arc::new(u),
                            Err(_) => continue,
                        };
                        let tgt = *t2.lock().unwrap();
                        if u.connect(tgt).await.is_err() {
                            continue;
                        }
                        f2.fetch_add(1, Ordering::SeqCst);
                        let my_gen = g2.load(Ordering::SeqCst);
                        ups.insert(from, (u.clone(), my_gen));
                        let (u2, front2, g3) = (u.clone(), front.clone(), g2.clone());
                        tokio::spawn(async move {
                            let mut b = vec![0u8; 65536];
                            while let Ok(n) = u2.recv(&mut b).await {
                                if my_gen < g3.load(Ordering::SeqCst) {
                                    continue; // black-holed flow
                                }
                                if front2.send_to(&b[..n], from).await.is_err() {
                                    break;
                                }
                            }
                        });
                        u
                    }
                };
                let _ = up.send(&buf[..n]).await;
            }
        });
        Ok(Relay { addr, target, flows, generation, task })
    }
    /// silently drop every packet of the connections that exist now (in both directions); connections
    /// opened afterwards pass
    pub fn blackhole_existing(&self) {
        self.generation.fetch_add(1, Ordering::SeqCst);
    }
    pub fn retarget(&self, t: SocketAddr) {
        *self.target.lock().unwrap() = t;
    }
    pub fn stop(&self) {
        self.task.abort();
    }
}

/// 0 = one cut per outage. Otherwise every outage is a *double* cut: the connection is closed, and closed again this many
/// milliseconds later, i.e. while the stream under test is in the middle of re-establishing itself (the hook waits for
/// the client's connection mutex, which the reconnecting stream holds during its handshake, so the second cut lands
/// right behind it: after the new connection is up and the registration was sent, before its answer was read)
static SECOND_CUT_MS: AtomicU64 = AtomicU64::new(0);
/// end of the current volley of cuts, in ms since `T0` (0 = none): what happens before it is part of the outage
static VOLLEY_END: AtomicU64 = AtomicU64::new(0);
static T0: std::sync::OnceLock<Instant> = std::sync::OnceLock::new();

fn now_ms() -> u64 {
    T0.get_or_init(Instant::now).elapsed().as_millis() as u64
}

fn volley_active() -> bool {
    now_ms() < VOLLEY_END.load(Ordering::SeqCst)
}

async fn cut(client: &selium::Client) {
    client.verif_close_connection().await;
    let d = SECOND_CUT_MS.load(Ordering::SeqCst);
    if d > 0 {
        VOLLEY_END.store(now_ms() + d + 80, Ordering::SeqCst);
        let c2 = client.clone();
        tokio::spawn(async move {
            // a short volley of cuts around the moment the stream reconnects: a cut requested while the reconnecting
            // stream holds the connection mutex lands right behind its handshake
            tokio::time::sleep(Duration::from_millis(d.saturating_sub(8))).await;
            for _ in 0..12 {
                c2.verif_close_connection().await;
                tokio::time::sleep(Duration::from_millis(2)).await;
            }
        });
    }
}

fn backoff(kind: usize, attempts: u32, step_ms: u64) -> BackoffStrategy {
    let b = match kind % 3 {
        0 => BackoffStrategy::constant(),
        1 => BackoffStrategy::linear(),
        _ => BackoffStrategy::exponential(2),
    };
    b.with_max_attempts(attempts).with_step(Duration::from_millis(step_ms)).with_max_duration(Duration::from_millis(200))
}

fn is_too_many(e: &SeliumError) -> bool {
    matches!(e, SeliumError::Quic(QuicError::TooManyRetries))
}

struct V(String, String);

fn reg(kind: usize, topic: &str) -> Frame {
    let t = TopicName::try_from(topic).unwrap();
    match kind {
        0 => Frame::RegisterPublisher(PublisherPayload { topic: t, retention_policy: 0, operations: vec![] }),
        1 => Frame::RegisterSubscriber(SubscriberPayload { topic: t, retention_policy: 0, operations: vec![] }),
        2 => Frame::RegisterReplier(ReplierPayload { topic: t }),
        _ => Frame::RegisterRequestor(RequestorPayload { topic: t }),
    }
}

/// raw echo replier on its own connection
async fn raw_echo(addr: SocketAddr, certs: &Certs, topic: &str) -> Result<(RawConn, tokio::task::JoinHandle<()>)> {
    let c = raw_connect(addr, certs).await?;
    let (mut s, r) = c.open(reg(2, topic), Duration::from_secs(8)).await?;
    if r != Some(Frame::Ok) {
        return Err(anyhow!("echo replier registration answered {:?}", r));
    }
    let h = tokio::spawn(async move {
        while let Some(Ok(f)) = s.next().await {
            if let Frame::Message(m) = f {
                let mut body = b"re:".to_vec();
                body.extend_from_slice(&m.message);
                if s.send(Frame::Message(MessagePayload { headers: m.headers, message: Bytes::from(body) })).await.is_err() {
                    break;
                }
            }
        }
    });
    Ok((c, h))
}

// ---------------------------------------------------------------------------------------
// recovery scenarios (hook)
// ---------------------------------------------------------------------------------------
async fn publisher_recovers(addr: SocketAddr, certs: &Certs, bo: BackoffStrategy, outages: usize, msgs_before: usize, id: u64) -> std::result::Result<u64, V> {
    publisher_recovers_t(addr, certs, bo, outages, msgs_before, id, None).await
}

/// `caller_timeout_ms`: the application wraps every send() after the cut in a timeout shorter than the backoff delay
/// and simply tries the next item when it fires (each abandoned send() future is dropped in the middle of the
/// reconnect); the stream must still come back
async fn publisher_recovers_t(addr: SocketAddr, certs: &Certs, bo: BackoffStrategy, outages: usize, msgs_before: usize, id: u64, caller_timeout_ms: Option<u64>) -> std::result::Result<u64, V> {
    let inc = |e: String| V("INCONCLUSIVE".into(), e);
    let topic = format!("/c12pub/top{}", id);
    let cs = lib_client(&addr.to_string(), certs, None).await.map_err(|e| inc(e.to_string()))?;
    let mut sub = cs.subscriber(&topic).with_decoder(StringCodec).open().await.map_err(|e| inc(e.to_string()))?;
    let cp = lib_client(&addr.to_string(), certs, Some(bo)).await.map_err(|e| inc(e.to_string()))?;
    let mut publ = cp.publisher(&topic).with_encoder(StringCodec).open().await.map_err(|e| inc(e.to_string()))?;
    let mut seq = 0u64;
    let mut delivered = 0u64;
    // barrier: items flow
    let mut barrier = |what: &'static str| {
        let _ = what;
    };
    barrier("start");
    async fn wait_for(sub: &mut (impl futures::Stream<Item = selium::std::errors::Result<String>> + Unpin), want: &str, within: Duration) -> std::result::Result<Vec<String>, String> {
        let t0 = Instant::now();
        let mut seen = vec![];
        while t0.elapsed() < within {
            match tokio::time::timeout(Duration::from_millis(300), sub.next()).await {
                Ok(Some(Ok(s))) => {
                    let hit = s == want;
                    seen.push(s);
                    if hit {
                        return Ok(seen);
                    }
                }
                Ok(Some(Err(e))) => return Err(format!("subscriber error: {e}")),
                Ok(None) => return Err("subscriber ended".into()),
                Err(_) => {}
            }
        }
        Err(format!("{:?} not received within {:?} (saw {:?})", want, within, seen.iter().rev().take(4).collect::<Vec<_>>()))
    }
    // establish
    let mut est = false;
    for _ in 0..100 {
        seq += 1;
        let item = format!("est-{}", seq);
        publ.send(item.clone()).await.map_err(|e| inc(format!("initial send: {e}")))?;
        if wait_for(&mut sub, &item, Duration::from_millis(300)).await.is_ok() {
            est = true;
            break;
        }
    }
    if !est {
        return Err(inc("precondition not reached: nothing flowed before the first cut".into()));
    }
    for o in 0..outages {
        for _ in 0..msgs_before {
            seq += 1;
            let item = format!("pre-{}-{}", o, seq);
            publ.send(item.clone()).await.map_err(|e| V("publisher/send-failed-while-connected".into(), format!("outage {}: send on a healthy connection failed: {}", o, e)))?;
            wait_for(&mut sub, &item, Duration::from_secs(10)).await.map_err(|e| V("publisher/lost-while-connected".into(), format!("outage {}: {}", o, e)))?;
            delivered += 1;
        }
        cut(&cp).await;
        // the first send after the cut may lose its item; it must come back Ok once the stream is re-established
        let mut first_ok = false;
        let t_cut = Instant::now();
        for attempt in 0..(if caller_timeout_ms.is_some() { 100_000 } else { 3 }) {
            seq += 1;
            let item = format!("cut-{}-{}", o, seq);
            if let Some(t) = caller_timeout_ms {
                if t_cut.elapsed() > Duration::from_secs(30) {
                    return Err(V("publisher/not-recovered/impatient-caller".into(), format!("outage #{}: for 30 s after the cut every send() wrapped in a {} ms timeout timed out ({} tries) although the server was reachable", o + 1, t, attempt)));
                }
                match tokio::time::timeout(Duration::from_millis(t), publ.send(item)).await {
                    Ok(Ok(())) => {
                        first_ok = true;
                        break;
                    }
                    Ok(Err(e)) => {
                        return Err(V(
                            if is_too_many(&e) { "publisher/gave-up-although-server-reachable/impatient-caller".into() } else { "publisher/error-after-cut/impatient-caller".into() },
                            format!("outage #{} (of {}): send #{} after the cut (each wrapped in a {} ms timeout) failed with {:?} although the server was reachable all the time", o + 1, outages, attempt + 1, t, e.to_string()),
                        ))
                    }
                    Err(_) => continue,
                }
            }
            match tokio::time::timeout(Duration::from_secs(30), publ.send(item)).await {
                Ok(Ok(())) => {
                    first_ok = true;
                    break;
                }
                Ok(Err(e)) => {
                    return Err(V(
                        if is_too_many(&e) { "publisher/gave-up-although-server-reachable".into() } else { "publisher/error-after-cut".into() },
                        format!("outage #{} (of {}): send #{} after the cut failed with {:?} although the server was reachable all the time", o + 1, outages, attempt + 1, e.to_string()),
                    ))
                }
                Err(_) => return Err(V("publisher/hangs-after-cut".into(), format!("outage #{}: send() did not return within 30 s after the connection was cut", o + 1))),
            }
        }
        if !first_ok {
            return Err(V("publisher/not-recovered".into(), format!("outage #{}: no send succeeded", o + 1)));
        }
        // everything sent from now on must arrive, in order
        let mut expect = vec![];
        for _ in 0..5 {
            seq += 1;
            let item = format!("post-{}-{}", o, seq);
            publ.send(item.clone()).await.map_err(|e| V("publisher/error-after-recovery".into(), format!("outage #{}: send after recovery failed: {}", o + 1, e)))?;
            expect.push(item);
        }
        let seen = wait_for(&mut sub, expect.last().unwrap(), Duration::from_secs(12)).await.map_err(|e| V("publisher/lost-after-recovery".into(), format!("outage #{}: items published after the stream recovered never reached the subscriber: {}", o + 1, e)))?;
        let got: Vec<&String> = seen.iter().filter(|s| s.starts_with("post-")).collect();
        if got.len() != expect.len() || got.iter().zip(expect.iter()).any(|(a, b)| *a != b) {
            return Err(V("publisher/misordered-after-recovery".into(), format!("outage #{}: published {:?} after recovery, subscriber saw {:?}", o + 1, expect, got)));
        }
        delivered += 5;
    }
    Ok(delivered)
}


/// A connection that was re-established must be as good as a first one — including its QUIC keep-alive: a stream that
/// recovered and is then idle for longer than the idle timeout still delivers what is published next. The server runs
/// with a 2 s idle timeout, the clients ping every 500 ms.
pub async fn idle_after_recovery(certs: &Certs, id: u64) -> std::result::Result<u64, (String, String)> {
    let inc = |e: String| ("INCONCLUSIVE".to_string(), e);
    let server = {
        let args = server_args(certs, "127.0.0.1:0", 2000);
        let server = selium_server::server::Server::try_from(args).map_err(|e| inc(format!("server: {e}")))?;
        let addr = server.addr().map_err(|e| inc(e.to_string()))?;
        let task = tokio::spawn(async move {
            let _ = server.listen().await;
        });
        (addr, task)
    };
    let addr = server.0.to_string();
    let mk = |bo: Option<BackoffStrategy>| {
        let addr = addr.clone();
        let certs = certs.clone();
        async move {
            let mut b = selium::custom().keep_alive(500u64).map_err(|e| e.to_string())?;
            if let Some(bo) = bo {
                b = b.backoff_strategy(bo);
            }
            b.endpoint(&addr).with_certificate_authority(certs.client_ca()).map_err(|e| e.to_string())?.with_cert_and_key(certs.client_cert(), certs.client_key()).map_err(|e| e.to_string())?.connect().await.map_err(|e| e.to_string())
        }
    };
    let topic = format!("/c12idleafter/top{}", id);
    let cs = mk(Some(BackoffStrategy::constant().with_max_attempts(5).with_step(Duration::from_millis(50)))).await.map_err(inc)?;
    let cp = mk(None).await.map_err(inc)?;
    let mut sub = cs.subscriber(&topic).with_decoder(StringCodec).open().await.map_err(|e| inc(e.to_string()))?;
    let mut publ = cp.publisher(&topic).with_encoder(StringCodec).open().await.map_err(|e| inc(e.to_string()))?;
    let stop = |t: &tokio::task::JoinHandle<()>| t.abort();
    // establish
    let mut est = false;
    for n in 0..60 {
        let _ = publ.send(format!("est-{}", n)).await;
        if let Ok(Some(Ok(_))) = tokio::time::timeout(Duration::from_millis(200), sub.next()).await {
            est = true;
            break;
        }
    }
    if !est {
        stop(&server.1);
        return Err(inc("precondition not reached: nothing flowed".into()));
    }
    // idle on the *first* connection for longer than the idle timeout: the keep-alive keeps it up (control)
    tokio::time::sleep(Duration::from_millis(2600)).await;
    publ.send("m1".to_string()).await.map_err(|e| inc(format!("send m1: {e}")))?;
    let mut ok = false;
    let t0 = Instant::now();
    while t0.elapsed() < Duration::from_secs(5) {
        if let Ok(Some(Ok(s))) = tokio::time::timeout(Duration::from_millis(500), sub.next()).await {
            if s == "m1" {
                ok = true;
                break;
            }
        }
    }
    if !ok {
        stop(&server.1);
        return Err(inc("precondition not reached: a first connection did not survive 2.6 s of idleness with a 500 ms keep-alive".into()));
    }
    // outage + recovery of the subscriber
    cs.verif_close_connection().await;
    let t0 = Instant::now();
    let mut recovered = false;
    let mut n = 0;
    while t0.elapsed() < Duration::from_secs(20) {
        n += 1;
        let _ = publ.send(format!("probe-{}", n)).await;
        match tokio::time::timeout(Duration::from_millis(300), sub.next()).await {
            Ok(Some(Ok(s))) if s.starts_with("probe-") => {
                recovered = true;
                break;
            }
            Ok(Some(Err(e))) => {
                stop(&server.1);
                return Err(("subscriber/error-after-cut".into(), format!("the subscriber yielded {:?} after a single cut although the server was reachable", e.to_string())));
            }
            _ => {}
        }
    }
    if !recovered {
        stop(&server.1);
        return Err(("subscriber/hangs-after-cut".into(), "nothing was delivered for 20 s after the subscriber's connection was cut".into()));
    }
    // drain the probes still under way, then stay idle for longer than the idle timeout
    while let Ok(Some(Ok(_))) = tokio::time::timeout(Duration::from_millis(400), sub.next()).await {}
    tokio::time::sleep(Duration::from_millis(2700)).await;
    publ.send("m2".to_string()).await.map_err(|e| inc(format!("send m2: {e}")))?;
    tokio::time::sleep(Duration::from_millis(1500)).await;
    publ.send("m3".to_string()).await.map_err(|e| inc(format!("send m3: {e}")))?;
    let mut got = vec![];
    let t0 = Instant::now();
    while t0.elapsed() < Duration::from_secs(6) && !got.contains(&"m3".to_string()) {
        match tokio::time::timeout(Duration::from_millis(500), sub.next()).await {
            Ok(Some(Ok(s))) => got.push(s),
            Ok(Some(Err(e))) => {
                stop(&server.1);
                return Err(("subscriber/error-after-recovery".into(), format!("after recovery and 2.7 s of idleness the subscriber yielded {:?}", e.to_string())));
            }
            _ => {}
        }
    }
    stop(&server.1);
    if got == vec!["m2".to_string(), "m3".to_string()] {
        Ok(2)
    } else {
        Err(("lost-after-recovery/idle-connection".into(), format!("the subscriber recovered from a connection loss, was then idle for 2.7 s (server idle timeout 2 s, client keep-alive 500 ms) and was sent m2 and, 1.5 s later, m3: it yielded {:?}", got)))
    }
}

/// An *idle* stream through more successive outages than one outage has attempts: every outage gets the full budget,
/// whether or not anything was exchanged in between. No request, no message between the cuts; afterwards the stream
/// must work.
async fn idle_streams_many_outages(addr: SocketAddr, certs: &Certs, attempts: u32, outages: usize, id: u64) -> std::result::Result<u64, V> {
    let inc = |e: String| V("INCONCLUSIVE".into(), e);
    let bo = BackoffStrategy::constant().with_max_attempts(attempts).with_step(Duration::from_millis(20));
    let topic_rr = format!("/c12idle/rr{}", id);
    let topic_ps = format!("/c12idle/ps{}", id);
    let cl = lib_client(&addr.to_string(), certs, Some(bo)).await.map_err(|e| inc(e.to_string()))?;
    let mut replier = cl
        .replier(&topic_rr)
        .with_request_decoder(StringCodec)
        .with_reply_encoder(StringCodec)
        .with_handler(|req: String| async move { Ok::<String, std::convert::Infallible>(format!("re:{}", req)) })
        .open()
        .await
        .map_err(|e| inc(format!("open replier: {e}")))?;
    let listen = tokio::spawn(async move { replier.listen().await });
    let mut sub = cl.subscriber(&topic_ps).with_decoder(StringCodec).open().await.map_err(|e| inc(e.to_string()))?;
    let sub_task = tokio::spawn(async move {
        let mut got = vec![];
        loop {
            match sub.next().await {
                Some(Ok(s)) => {
                    let stop = s == "after-the-outages";
                    got.push(Ok(s));
                    if stop {
                        break;
                    }
                }
                Some(Err(e)) => {
                    got.push(Err(format!("{}|{}", if is_too_many(&e) { "too-many-retries" } else { "other" }, e)));
                    break;
                }
                None => break,
            }
        }
        got
    });
    let other = lib_client(&addr.to_string(), certs, None).await.map_err(|e| inc(e.to_string()))?;
    let mut rq = other.requestor(&topic_rr).with_request_encoder(StringCodec).with_reply_decoder(StringCodec).with_request_timeout(1000u64).map_err(|e| inc(e.to_string()))?.open().await.map_err(|e| inc(e.to_string()))?;
    let mut publ = other.publisher(&topic_ps).with_encoder(StringCodec).open().await.map_err(|e| inc(e.to_string()))?;
    let mut est = false;
    for n in 0..40 {
        if let Ok(v) = rq.request(format!("est-{}", n)).await {
            if v == format!("re:est-{}", n) {
                est = true;
                break;
            }
        }
        tokio::time::sleep(Duration::from_millis(50)).await;
    }
    if !est {
        listen.abort();
        sub_task.abort();
        return Err(inc("precondition not reached: the replier never answered before the first cut".into()));
    }
    for _ in 0..outages {
        cl.verif_close_connection().await;
        // long enough for a re-registration (20 ms back-off + handshake), silent otherwise
        tokio::time::sleep(Duration::from_millis(450)).await;
    }
    // the replier must answer again
    let t0 = Instant::now();
    let mut answered = false;
    let mut n = 0;
    while t0.elapsed() < Duration::from_secs(20) {
        n += 1;
        if let Ok(Ok(v)) = tokio::time::timeout(Duration::from_secs(5), rq.request(format!("after-{}", n))).await {
            if v == format!("re:after-{}", n) {
                answered = true;
                break;
            }
        }
        if listen.is_finished() {
            break;
        }
        tokio::time::sleep(Duration::from_millis(100)).await;
    }
    if !answered {
        let why = if listen.is_finished() {
            match listen.await {
                Ok(Err(e)) => format!("listen() returned Err({})", e),
                Ok(Ok(())) => "listen() returned Ok".to_string(),
                Err(e) => format!("listen task: {e}"),
            }
        } else {
            listen.abort();
            "listen() is still running".to_string()
        };
        sub_task.abort();
        let sig = if why.contains("Too many") { "replier/gave-up-although-server-reachable/idle-outages" } else { "replier/not-recovered/idle-outages" };
        return Err(V(sig.into(), format!("{} successive outages (each recovered, nothing exchanged in between; {} attempts per outage configured): no request was answered within 20 s afterwards; {}", outages, attempts, why)));
    }
    listen.abort();
    // … and the idle subscriber must deliver again
    let t0 = Instant::now();
    let mut delivered = false;
    while t0.elapsed() < Duration::from_secs(20) && !sub_task.is_finished() {
        let _ = publ.send("after-the-outages".to_string()).await;
        tokio::time::sleep(Duration::from_millis(150)).await;
    }
    if sub_task.is_finished() {
        if let Ok(got) = sub_task.await {
            match got.last() {
                Some(Ok(s)) if s == "after-the-outages" => delivered = true,
                Some(Err(e)) => {
                    return Err(V(
                        if e.starts_with("too-many") { "subscriber/gave-up-although-server-reachable/idle-outages".into() } else { "subscriber/error-after-cut/idle-outages".into() },
                        format!("{} successive outages with nothing exchanged in between ({} attempts per outage): the idle subscriber yielded {:?}", outages, attempts, e),
                    ))
                }
                _ => {}
            }
        }
    } else {
        sub_task.abort();
    }
    if !delivered {
        return Err(V("subscriber/hangs-after-cut/idle-outages".into(), format!("{} successive outages with nothing exchanged in between: nothing published afterwards reached the idle subscriber within 20 s", outages)));
    }
    Ok(outages as u64)
}

/// The publisher loses its connection while it is blocked by back-pressure (a subscriber that does not read, so that a
/// frame is stuck half-written in the publisher's writer). Once the subscriber reads again and the publisher has
/// re-established itself, everything it publishes (and is told Ok for) must arrive.
async fn publisher_recovers_under_backpressure(addr: SocketAddr, certs: &Certs, id: u64) -> std::result::Result<u64, V> {
    let inc = |e: String| V("INCONCLUSIVE".into(), e);
    let topic = format!("/c12bp/top{}", id);
    let raw = raw_connect(addr, certs).await.map_err(|e| inc(e.to_string()))?;
    let (mut sub, r) = raw.open(reg(1, &topic), Duration::from_secs(8)).await.map_err(|e| inc(e.to_string()))?;
    if r != Some(Frame::Ok) {
        return Err(inc(format!("subscriber registration answered {:?}", r)));
    }
    let bo = BackoffStrategy::constant().with_max_attempts(5).with_step(Duration::from_millis(40));
    let cp = lib_client(&addr.to_string(), certs, Some(bo)).await.map_err(|e| inc(e.to_string()))?;
    let mut publ = cp.publisher(&topic).with_encoder(StringCodec).open().await.map_err(|e| inc(e.to_string()))?;
    let filler = "f".repeat(48 * 1024);
    // flood until the publisher blocks (the subscriber is not reading)
    let mut n = 0u64;
    let mut blocked = false;
    let t0 = Instant::now();
    while t0.elapsed() < Duration::from_secs(40) {
        n += 1;
        match tokio::time::timeout(Duration::from_millis(1200), publ.send(format!("{:07}|{}", n, filler))).await {
            Ok(Ok(())) => {}
            Ok(Err(e)) => return Err(inc(format!("flood send failed: {e}"))),
            Err(_) => {
                blocked = true;
                break;
            }
        }
    }
    if !blocked {
        return Err(inc(format!("precondition not reached: the publisher never blocked after {} × 48 KiB", n)));
    }
    // the connection goes while a frame is half-written; then the subscriber starts reading
    cp.verif_close_connection().await;
    let arrived: Arc<Mutex<Vec<u64>>> = Arc::new(Mutex::new(vec![]));
    let a2 = arrived.clone();
    let reader = tokio::spawn(async move {
        while let Some(Ok(f)) = sub.next().await {
            if let Frame::Message(m) = f {
                if let Ok(num) = String::from_utf8_lossy(&m.message[..7.min(m.message.len())]).parse::<u64>() {
                    a2.lock().unwrap().push(num);
                }
            }
        }
    });
    // In 2 of 3 runs the caller first flushes: flush() returns Ok only once the stream has been re-established (or the
    // retry budget is spent, which the sends below then report), so everything sent after it is "published after
    // recovery" in the strictest sense and none of it may be lost.
    let flushed_first = id % 3 != 0 && matches!(tokio::time::timeout(Duration::from_secs(30), publ.flush()).await, Ok(Ok(())));
    // publish again: small numbered messages from 9 000 001 on
    let mut results: Vec<(u64, bool, String)> = vec![];
    for k in 0..40u64 {
        let num = 9_000_001 + k;
        let r = tokio::time::timeout(Duration::from_secs(30), publ.send(format!("{:07}|after", num))).await;
        match r {
            Ok(Ok(())) => results.push((num, true, String::new())),
            Ok(Err(e)) => {
                if is_too_many(&e) {
                    reader.abort();
                    return Err(V("publisher/gave-up-although-server-reachable/back-pressure".into(), format!("send #{} after the cut reported too-many-retries although the server was reachable", k + 1)));
                }
                results.push((num, false, e.to_string()))
            }
            Err(_) => {
                reader.abort();
                return Err(V("publisher/hangs-after-cut/back-pressure".into(), format!("send #{} did not return within 30 s after the connection was cut under back-pressure", k + 1)));
            }
        }
        tokio::time::sleep(Duration::from_millis(25)).await;
    }
    tokio::time::sleep(Duration::from_millis(1500)).await;
    reader.abort();
    let got = arrived.lock().unwrap().clone();
    let first_ok = results.iter().position(|r| r.1);
    let Some(first_ok) = first_ok else {
        return Err(V("publisher/not-recovered/back-pressure".into(), format!("none of 40 sends after the cut succeeded, e.g. {:?}", results.first().map(|r| r.2.clone()))));
    };
    // the send that met the broken connection may lose its item (unless a flush had re-established the stream before);
    // everything told Ok after it must arrive
    let skip = if flushed_first { 0 } else { first_ok + 1 };
    let lost: Vec<u64> = results.iter().skip(skip).filter(|r| r.1 && !got.contains(&r.0)).map(|r| r.0).collect();
    if !lost.is_empty() {
        return Err(V(
            "publisher/lost-after-recovery/back-pressure".into(),
            format!(
                "the publisher lost its connection while blocked by back-pressure ({} × 48 KiB in flight){}; afterwards send() returned Ok for {} messages, of which {} never reached the subscriber (first lost {}, first delivered {:?})",
                n,
                if flushed_first { ", then flush() returned Ok" } else { "" },
                results.iter().filter(|r| r.1).count(),
                lost.len(),
                lost[0],
                got.iter().find(|x| **x >= 9_000_001)
            ),
        ));
    }
    Ok(results.iter().filter(|r| r.1).count() as u64)
}

/// A publisher that publishes in bursts (`feed()` × n + `flush()`, or `send_all`), so that it meets the dead connection
/// with more than the 8 KiB its framed writer buffers: it must re-establish itself like any other, and what it
/// publishes after that must arrive.
async fn burst_publisher_recovers(addr: SocketAddr, certs: &Certs, bo: BackoffStrategy, outages: usize, id: u64, use_send_all: bool) -> std::result::Result<u64, V> {
    use futures::stream;
    let inc = |e: String| V("INCONCLUSIVE".into(), e);
    let topic = format!("/c12burst/top{}", id);
    let cs = lib_client(&addr.to_string(), certs, None).await.map_err(|e| inc(e.to_string()))?;
    let mut sub = cs.subscriber(&topic).with_decoder(StringCodec).open().await.map_err(|e| inc(e.to_string()))?;
    let cp = lib_client(&addr.to_string(), certs, Some(bo)).await.map_err(|e| inc(e.to_string()))?;
    let mut publ = cp.publisher(&topic).with_encoder(StringCodec).open().await.map_err(|e| inc(e.to_string()))?;
    let filler = "x".repeat(4096);
    let mut seq = 0u64;
    let mut mk = |tag: &str, seq: &mut u64| -> String {
        *seq += 1;
        format!("{}-{}|{}", tag, seq, filler)
    };
    // drains the subscriber until `want` arrives
    async fn until(sub: &mut (impl futures::Stream<Item = selium::std::errors::Result<String>> + Unpin), want: &str, within: Duration) -> bool {
        let t0 = Instant::now();
        while t0.elapsed() < within {
            match tokio::time::timeout(Duration::from_millis(300), sub.next()).await {
                Ok(Some(Ok(s))) if s.split('|').next() == Some(want) => return true,
                Ok(Some(Ok(_))) | Err(_) => {}
                _ => return false,
            }
        }
        false
    }
    async fn burst<P>(publ: &mut P, items: Vec<String>, use_send_all: bool) -> std::result::Result<(), String>
    where
        P: futures::Sink<String, Error = SeliumError> + Unpin,
    {
        if use_send_all {
            let mut st = stream::iter(items.into_iter().map(Ok::<String, SeliumError>));
            publ.send_all(&mut st).await.map_err(|e| e.to_string())
        } else {
            for it in items {
                publ.feed(it).await.map_err(|e| e.to_string())?;
            }
            publ.flush().await.map_err(|e| e.to_string())
        }
    }
    // establish
    let mut est = false;
    for _ in 0..60 {
        let it = mk("est", &mut seq);
        let key = it.split('|').next().unwrap().to_string();
        publ.send(it).await.map_err(|e| inc(format!("initial send: {e}")))?;
        if until(&mut sub, &key, Duration::from_millis(300)).await {
            est = true;
            break;
        }
    }
    if !est {
        return Err(inc("precondition not reached: nothing flowed before the first cut".into()));
    }
    let mut delivered = 0u64;
    for o in 0..outages {
        // a burst on the healthy connection
        let items: Vec<String> = (0..6).map(|_| mk("pre", &mut seq)).collect();
        let last = items.last().unwrap().split('|').next().unwrap().to_string();
        burst(&mut publ, items, use_send_all).await.map_err(|e| V("publisher/send-failed-while-connected".into(), format!("outage {}: burst on a healthy connection failed: {}", o, e)))?;
        if !until(&mut sub, &last, Duration::from_secs(10)).await {
            return Err(V("publisher/lost-while-connected".into(), format!("outage {}: a burst published on a healthy connection did not arrive", o)));
        }
        cut(&cp).await;
        // the burst that meets the dead connection may lose its items and may even fail; the ones after it must not
        let t_cut = Instant::now();
        let mut recovered = false;
        let mut last_err = String::new();
        for attempt in 0..40 {
            let items: Vec<String> = (0..6).map(|_| mk("cut", &mut seq)).collect();
            match tokio::time::timeout(Duration::from_secs(30), burst(&mut publ, items, use_send_all)).await {
                Ok(Ok(())) if attempt > 0 || t_cut.elapsed() > Duration::from_millis(1) => {
                    recovered = true;
                    break;
                }
                Ok(Ok(())) => {}
                Ok(Err(e)) => {
                    if e.contains("Too many") {
                        return Err(V("publisher/gave-up-although-server-reachable/burst".into(), format!("outage #{}: burst #{} after the cut reported too-many-retries although the server was reachable", o + 1, attempt + 1)));
                    }
                    last_err = e;
                    tokio::time::sleep(Duration::from_millis(100)).await;
                }
                Err(_) => return Err(V("publisher/hangs-after-cut/burst".into(), format!("outage #{}: a burst did not return within 30 s after the connection was cut", o + 1))),
            }
            if t_cut.elapsed() > Duration::from_secs(20) {
                break;
            }
        }
        if !recovered {
            return Err(V(
                "publisher/not-recovered/burst".into(),
                format!("outage #{} (of {}): for 20 s after the cut every burst ({}) failed, last with {:?}, although the server was reachable all the time and the retry budget was never used up", o + 1, outages, if use_send_all { "send_all of 6 × 4 KiB" } else { "6 × feed(4 KiB) + flush()" }, last_err),
            ));
        }
        let items: Vec<String> = (0..6).map(|_| mk("post", &mut seq)).collect();
        let last = items.last().unwrap().split('|').next().unwrap().to_string();
        burst(&mut publ, items, use_send_all).await.map_err(|e| V("publisher/error-after-recovery/burst".into(), format!("outage #{}: burst after recovery failed: {}", o + 1, e)))?;
        if !until(&mut sub, &last, Duration::from_secs(12)).await {
            return Err(V("publisher/lost-after-recovery/burst".into(), format!("outage #{}: a burst published after the stream had recovered never reached the subscriber", o + 1)));
        }
        delivered += 6;
    }
    Ok(delivered)
}

/// publisher with batching (+ compression) across outages: items in flight at a cut may be lost, but once the
/// stream is back a steady flow of numbered items must reach the subscriber as a gap-free, ordered run
async fn batched_publisher_recovers(addr: SocketAddr, certs: &Certs, bo: BackoffStrategy, outages: usize, id: u64) -> std::result::Result<u64, V> {
    use selium::batching::BatchConfig;
    let inc = |e: String| V("INCONCLUSIVE".into(), e);
    let topic = format!("/c12bat/top{}", id);
    let (comp, decomp) = super::c03::compression_pair(if id % 2 == 0 { "zstd" } else { "lz4" });
    let cs = lib_client(&addr.to_string(), certs, None).await.map_err(|e| inc(e.to_string()))?;
    let mut sub = cs.subscriber(&topic).with_decoder(StringCodec).with_decompression(decomp).open().await.map_err(|e| inc(e.to_string()))?;
    let cp = lib_client(&addr.to_string(), certs, Some(bo)).await.map_err(|e| inc(e.to_string()))?;
    let mut publ = cp
        .publisher(&topic)
        .with_encoder(StringCodec)
        .with_compression(comp)
        .with_batching(BatchConfig::new(4, Duration::from_millis(15)))
        .open()
        .await
        .map_err(|e| inc(e.to_string()))?;
    let mut n = 0u64;
    let mut delivered = 0u64;
    for o in 0..=outages {
        if o > 0 {
            cp.verif_close_connection().await;
        }
        // publish steadily; the subscriber must eventually see a gap-free ordered run of 24 items
        let t0 = Instant::now();
        let mut run: Vec<u64> = vec![];
        let mut best = 0usize;
        while best < 24 {
            n += 1;
            match tokio::time::timeout(Duration::from_secs(30), publ.send(format!("{}", n))).await {
                Ok(Ok(())) => {}
                Ok(Err(e)) => return Err(V(if is_too_many(&e) { "publisher/gave-up-although-server-reachable".into() } else { "publisher/error-after-cut".into() }, format!("batching publisher, outage #{}: send failed with {:?}", o, e.to_string()))),
                Err(_) => return Err(V("publisher/hangs-after-cut".into(), format!("batching publisher, outage #{}: send() did not return within 30 s", o))),
            }
            tokio::time::sleep(Duration::from_millis(3)).await;
            while let Ok(Some(r)) = tokio::time::timeout(Duration::from_millis(1), sub.next()).await {
                match r {
                    Ok(s) => {
                        let v: u64 = s.parse().unwrap_or(0);
                        if run.last().map_or(true, |l| v == l + 1) {
                            run.push(v);
                        } else if run.last().map_or(false, |l| v <= *l) {
                            return Err(V("publisher/duplicate-or-reordered-after-recovery".into(), format!("batching publisher, outage #{}: subscriber saw {} after {}", o, v, run.last().unwrap())));
                        } else {
                            run = vec![v];
                        }
                        best = best.max(run.len());
                        delivered += 1;
                    }
                    Err(e) => return Err(V("publisher/subscriber-error-after-recovery".into(), format!("batching publisher, outage #{}: subscriber yielded {:?}", o, e.to_string()))),
                }
            }
            if t0.elapsed() > Duration::from_secs(40) {
                return Err(V("publisher/lost-after-recovery".into(), format!("batching publisher, outage #{}: no gap-free run of 24 items within 40 s of steady publishing (best run {})", o, best)));
            }
        }
    }
    Ok(delivered)
}

async fn subscriber_recovers(addr: SocketAddr, certs: &Certs, bo: BackoffStrategy, outages: usize, id: u64) -> std::result::Result<u64, V> {
    let inc = |e: String| V("INCONCLUSIVE".into(), e);
    let topic = format!("/c12sub/top{}", id);
    let cs = lib_client(&addr.to_string(), certs, Some(bo)).await.map_err(|e| inc(e.to_string()))?;
    let mut sub = cs.subscriber(&topic).with_decoder(StringCodec).open().await.map_err(|e| inc(e.to_string()))?;
    let cp = lib_client(&addr.to_string(), certs, None).await.map_err(|e| inc(e.to_string()))?;
    let mut publ = cp.publisher(&topic).with_encoder(StringCodec).open().await.map_err(|e| inc(e.to_string()))?;
    let feeder = tokio::spawn(async move {
        let mut n = 0u64;
        loop {
            n += 1;
            if publ.send(format!("{}", n)).await.is_err() {
                break;
            }
            tokio::time::sleep(Duration::from_millis(3)).await;
        }
    });
    let mut yielded = 0u64;
    let next_num = |r: Option<selium::std::errors::Result<String>>| -> std::result::Result<u64, String> {
        match r {
            Some(Ok(s)) => s.parse::<u64>().map_err(|_| format!("odd item {:?}", s)),
            Some(Err(e)) => Err(format!("ERR:{}|{}", if is_too_many(&e) { "too-many-retries" } else { "other" }, e)),
            None => Err("stream ended".into()),
        }
    };
    // establish
    match tokio::time::timeout(Duration::from_secs(15), sub.next()).await {
        Ok(r) => {
            next_num(r).map_err(|e| inc(format!("before any cut: {e}")))?;
        }
        Err(_) => return Err(inc("precondition not reached: nothing arrived before the first cut".into())),
    }
    for o in 0..outages {
        for _ in 0..(5 + o * 3) {
            match tokio::time::timeout(Duration::from_secs(10), sub.next()).await {
                Ok(r) => {
                    next_num(r).map_err(|e| V("subscriber/error-while-connected".into(), format!("outage {}: {}", o, e)))?;
                    yielded += 1;
                }
                Err(_) => return Err(inc("steady publisher stalled".into())),
            }
        }
        cut(&cs).await;
        // items already buffered locally may still be yielded; then the stream must resume with a gap-free run
        let t0 = Instant::now();
        let mut run: Vec<u64> = vec![];
        let mut best_run = 0usize;
        while t0.elapsed() < Duration::from_secs(25) && best_run < 20 {
            match tokio::time::timeout(Duration::from_secs(20), sub.next()).await {
                Ok(r) => match next_num(r) {
                    Ok(n) => {
                        if run.last().map_or(true, |l| n == l + 1) {
                            run.push(n);
                        } else {
                            run = vec![n];
                        }
                        best_run = best_run.max(run.len());
                        yielded += 1;
                    }
                    Err(e) => {
                        feeder.abort();
                        return Err(V(
                            if e.contains("too-many-retries") { "subscriber/gave-up-although-server-reachable".into() } else { "subscriber/error-after-cut".into() },
                            format!("outage #{} (of {}): the subscriber yielded {:?} although the server was reachable all the time", o + 1, outages, e),
                        ));
                    }
                },
                Err(_) => {
                    feeder.abort();
                    return Err(V("subscriber/hangs-after-cut".into(), format!("outage #{}: nothing was yielded for 20 s after the connection was cut while a publisher kept publishing", o + 1)));
                }
            }
        }
        if best_run < 20 {
            feeder.abort();
            return Err(V("subscriber/gaps-after-recovery".into(), format!("outage #{}: no gap-free run of 20 items after recovery (last run {:?})", o + 1, run)));
        }
    }
    feeder.abort();
    Ok(yielded)
}

/// several keep-alive streams on ONE client notice the same connection loss together: each of them must recover
/// within its own budget (they share the client's connection, so their reconnects contend)
async fn shared_client_subscribers_recover(addr: SocketAddr, certs: &Certs, bo: BackoffStrategy, n_subs: usize, outages: usize, id: u64) -> std::result::Result<u64, V> {
    let inc = |e: String| V("INCONCLUSIVE".into(), e);
    let topic = format!("/c12shr/top{}", id);
    let cs = lib_client(&addr.to_string(), certs, Some(bo)).await.map_err(|e| inc(e.to_string()))?;
    let (tx, mut rx) = tokio::sync::mpsc::unbounded_channel::<(usize, std::result::Result<u64, String>)>();
    let mut tasks = vec![];
    for i in 0..n_subs {
        let mut sub = cs.subscriber(&topic).with_decoder(StringCodec).open().await.map_err(|e| inc(e.to_string()))?;
        let tx = tx.clone();
        tasks.push(tokio::spawn(async move {
            loop {
                let r = match sub.next().await {
                    Some(Ok(s)) => s.parse::<u64>().map_err(|_| format!("odd item {:?}", s)),
                    Some(Err(e)) => Err(format!("ERR:{}|{}", if is_too_many(&e) { "too-many-retries" } else { "other" }, e)),
                    None => Err("stream ended".into()),
                };
                let stop = r.is_err();
                if tx.send((i, r)).is_err() || stop {
                    break;
                }
            }
        }));
    }
    let cp = lib_client(&addr.to_string(), certs, None).await.map_err(|e| inc(e.to_string()))?;
    let mut publ = cp.publisher(&topic).with_encoder(StringCodec).open().await.map_err(|e| inc(e.to_string()))?;
    let published = Arc::new(AtomicU64::new(0));
    let p2 = published.clone();
    let feeder = tokio::spawn(async move {
        let mut n = 0u64;
        loop {
            n += 1;
            if publ.send(format!("{}", n)).await.is_err() {
                break;
            }
            p2.store(n, Ordering::SeqCst);
            tokio::time::sleep(Duration::from_millis(4)).await;
        }
    });
    let stop_all = |tasks: &Vec<tokio::task::JoinHandle<()>>| {
        for t in tasks {
            t.abort();
        }
    };
    let mut yielded = 0u64;
    // establish: every subscriber yields something
    let mut seen = vec![false; n_subs];
    let t0 = Instant::now();
    while !seen.iter().all(|x| *x) {
        match tokio::time::timeout(Duration::from_secs(15), rx.recv()).await {
            Ok(Some((i, Ok(_)))) => seen[i] = true,
            Ok(Some((i, Err(e)))) => {
                feeder.abort();
                stop_all(&tasks);
                return Err(inc(format!("subscriber {} before any cut: {}", i, e)));
            }
            _ => {
                feeder.abort();
                stop_all(&tasks);
                return Err(inc("precondition not reached: not every subscriber received something before the first cut".into()));
            }
        }
        if t0.elapsed() > Duration::from_secs(20) {
            feeder.abort();
            stop_all(&tasks);
            return Err(inc("precondition not reached within 20 s".into()));
        }
    }
    for o in 0..outages {
        tokio::time::sleep(Duration::from_millis(40)).await;
        let mark = published.load(Ordering::SeqCst);
        cs.verif_close_connection().await;
        // every subscriber must come back: a gap-free run of 10 items published after the cut
        let mut runs: Vec<Vec<u64>> = vec![vec![]; n_subs];
        let mut done = vec![false; n_subs];
        let t0 = Instant::now();
        while !done.iter().all(|x| *x) {
            let left = Duration::from_secs(25).saturating_sub(t0.elapsed());
            match tokio::time::timeout(left, rx.recv()).await {
                Ok(Some((i, Ok(n)))) => {
                    yielded += 1;
                    if n > mark {
                        if runs[i].last().map_or(true, |l| n == l + 1) {
                            runs[i].push(n);
                        } else {
                            runs[i] = vec![n];
                        }
                        if runs[i].len() >= 10 {
                            done[i] = true;
                        }
                    }
                }
                Ok(Some((i, Err(e)))) => {
                    feeder.abort();
                    stop_all(&tasks);
                    return Err(V(
                        if e.contains("too-many-retries") { "subscriber/gave-up-although-server-reachable/shared-client".into() } else { "subscriber/error-after-cut/shared-client".into() },
                        format!("outage #{} (of {}), {} subscribers on one client: subscriber {} yielded {:?} although the server was reachable all the time", o + 1, outages, n_subs, i, e),
                    ));
                }
                Ok(None) | Err(_) => {
                    feeder.abort();
                    stop_all(&tasks);
                    let stuck: Vec<usize> = (0..n_subs).filter(|i| !done[*i]).collect();
                    return Err(V("subscriber/hangs-after-cut/shared-client".into(), format!("outage #{}: subscribers {:?} (of {} on one client) yielded no gap-free run of 10 fresh items within 25 s after the connection was cut while a publisher kept publishing", o + 1, stuck, n_subs)));
                }
            }
        }
    }
    feeder.abort();
    stop_all(&tasks);
    Ok(yielded)
}

async fn requestor_recovers(addr: SocketAddr, certs: &Certs, bo: BackoffStrategy, outages: usize, id: u64) -> std::result::Result<u64, V> {
    requestor_recovers_t(addr, certs, bo, outages, id, 1500).await
}

async fn requestor_recovers_t(addr: SocketAddr, certs: &Certs, bo: BackoffStrategy, outages: usize, id: u64, request_timeout_ms: u64) -> std::result::Result<u64, V> {
    let inc = |e: String| V("INCONCLUSIVE".into(), e);
    let topic = format!("/c12req/top{}", id);
    let (_rc, echo) = raw_echo(addr, certs, &topic).await.map_err(|e| inc(e.to_string()))?;
    let cr = lib_client(&addr.to_string(), certs, Some(bo)).await.map_err(|e| inc(e.to_string()))?;
    let mut rq = cr
        .requestor(&topic)
        .with_request_encoder(StringCodec)
        .with_reply_decoder(StringCodec)
        .with_request_timeout(request_timeout_ms)
        .map_err(|e| inc(e.to_string()))?
        .open()
        .await
        .map_err(|e| inc(e.to_string()))?;
    let mut n = 0u64;
    let mut okc = 0u64;
    // establish
    let mut est = false;
    for _ in 0..20 {
        n += 1;
        if let Ok(v) = rq.request(format!("est-{}", n)).await {
            if v == format!("re:est-{}", n) {
                est = true;
                break;
            }
        }
    }
    if !est {
        echo.abort();
        return Err(inc("precondition not reached: no request was answered before the first cut".into()));
    }
    for o in 0..outages {
        cut(&cr).await;
        // while a volley of cuts is under way every call is a "first call after a cut": it may fail, but not with
        // too-many-retries, and it must return
        while volley_active() {
            n += 1;
            match tokio::time::timeout(Duration::from_secs(40), rq.request(format!("volley-{}-{}", o, n))).await {
                Err(_) => {
                    echo.abort();
                    return Err(V("requestor/hangs-after-cut".into(), format!("outage #{}: request() did not return within 40 s", o + 1)));
                }
                Ok(Err(e)) if is_too_many(&e) => {
                    echo.abort();
                    return Err(V("requestor/gave-up-although-server-reachable".into(), format!("outage #{} (of {}): request() reported too-many-retries although the server was reachable", o + 1, outages)));
                }
                _ => {}
            }
        }
        // at most the first call after a cut may fail
        n += 1;
        let first = tokio::time::timeout(Duration::from_secs(40), rq.request(format!("cut-{}-{}", o, n))).await;
        match first {
            Err(_) => {
                echo.abort();
                return Err(V("requestor/hangs-after-cut".into(), format!("outage #{}: request() did not return within 40 s", o + 1)));
            }
            Ok(Ok(v)) if v != format!("re:cut-{}-{}", o, n) => {
                echo.abort();
                return Err(V("requestor/wrong-reply-after-cut".into(), format!("outage #{}: got {:?}", o + 1, v)));
            }
            Ok(Err(e)) if is_too_many(&e) => {
                echo.abort();
                return Err(V("requestor/gave-up-although-server-reachable".into(), format!("outage #{} (of {}): request() reported too-many-retries although the server was reachable", o + 1, outages)));
            }
            _ => {}
        }
        for k in 0..4 {
            n += 1;
            let p = format!("post-{}-{}-{}", o, k, n);
            match tokio::time::timeout(Duration::from_secs(40), rq.request(p.clone())).await {
                Ok(Ok(v)) if v == format!("re:{}", p) => okc += 1,
                Ok(Ok(v)) => {
                    echo.abort();
                    return Err(V("requestor/wrong-reply-after-recovery".into(), format!("outage #{}: request {:?} returned {:?}", o + 1, p, v)));
                }
                Ok(Err(e)) => {
                    echo.abort();
                    return Err(V(
                        "requestor/not-working-after-recovery".into(),
                        format!("outage #{}: call #{} after the stream was re-established failed with {:?} (the replier stayed bound and answers immediately)", o + 1, k + 2, e.to_string()),
                    ));
                }
                Err(_) => {
                    echo.abort();
                    return Err(V("requestor/hangs-after-recovery".into(), format!("outage #{}: request() did not return within 40 s", o + 1)));
                }
            }
        }
    }
    echo.abort();
    Ok(okc)
}


/// what the test replier answers: "get" → a 4 KiB document, "put" → a short acknowledgement, anything else → an echo
fn c14_reply_for(req: &[u8]) -> Vec<u8> {
    let text = String::from_utf8_lossy(req);
    let mut parts = text.splitn(3, '|');
    let id = parts.next().unwrap_or("");
    match parts.next() {
        Some("get") => {
            let mut v = format!("doc-for-{}|", id).into_bytes();
            while v.len() < 4096 {
                v.extend_from_slice(b"lorem ipsum dolor sit amet ");
            }
            v
        }
        Some("put") => format!("stored-{}-{}", id, req.len()).into_bytes(),
        _ => req.to_vec(),
    }
}

/// Request/reply with compression on both legs (library Requestor and library Replier) across connection losses of the
/// requestor: what the handler receives and what request() returns must be the exact bytes, also for the call that is
/// re-sent after the stream was re-established.
pub async fn compressed_requestor_recovers(addr: SocketAddr, certs: &Certs, bo: BackoffStrategy, outages: usize, id: u64, algo: &'static str) -> std::result::Result<u64, (String, String)> {
    use super::c03::compression_pair;
    use selium::std::codecs::BytesCodec;
    let inc = |e: String| ("INCONCLUSIVE".to_string(), e);
    let topic = format!("/c14wire/top{}", id);
    let (c, d) = compression_pair(algo);
    let seen: Arc<Mutex<Vec<Vec<u8>>>> = Arc::new(Mutex::new(vec![]));
    let s2 = seen.clone();
    let crep = lib_client(&addr.to_string(), certs, None).await.map_err(|e| inc(e.to_string()))?;
    let mut replier = crep
        .replier(&topic)
        .with_request_decoder(BytesCodec)
        .with_request_decompression(d.clone())
        .with_reply_encoder(BytesCodec)
        .with_reply_compression(c.clone())
        .with_handler(move |req: Vec<u8>| {
            let s3 = s2.clone();
            async move {
                s3.lock().unwrap().push(req.clone());
                Ok::<Vec<u8>, std::convert::Infallible>(c14_reply_for(&req))
            }
        })
        .open()
        .await
        .map_err(|e| inc(format!("open replier: {e}")))?;
    let listen = tokio::spawn(async move { replier.listen().await });
    let cr = lib_client(&addr.to_string(), certs, Some(bo)).await.map_err(|e| inc(e.to_string()))?;
    let mut rq = cr
        .requestor(&topic)
        .with_request_encoder(BytesCodec)
        .with_request_compression(c.clone())
        .with_reply_decoder(BytesCodec)
        .with_reply_decompression(d.clone())
        .with_request_timeout(1500u64)
        .map_err(|e| inc(e.to_string()))?
        .open()
        .await
        .map_err(|e| inc(format!("open requestor: {e}")))?;
    let mut rng = crate::common::Rng::new(id ^ 0xC14);
    // request and reply sizes vary independently: tiny request → large reply ("get"), large request → tiny reply
    // ("put"), tiny ↔ tiny ("ping"), large ↔ large (echo)
    let mut payload = |n: u64, rng: &mut crate::common::Rng| -> Vec<u8> {
        let words = ["selium ", "topic ", "0000000000", "message "];
        match n % 4 {
            0 => format!("call-{}|get", n).into_bytes(),
            1 => format!("call-{}|ping", n).into_bytes(),
            k => {
                let mut v = format!("call-{}|{}|", n, if k == 2 { "put" } else { "echo" }).into_bytes();
                let target = 200 + rng.below(4000) as usize;
                while v.len() < target {
                    v.extend_from_slice(rng.pick(&words).as_bytes());
                }
                v
            }
        }
    };
    let mut n = 0u64;
    let mut est = false;
    for _ in 0..40 {
        n += 1;
        let p = payload(n, &mut rng);
        if let Ok(v) = rq.request(p.clone()).await {
            if v == c14_reply_for(&p) {
                est = true;
                break;
            }
            listen.abort();
            return Err(("wire-composition/reply-differs".into(), format!("{}: request of {} bytes on a healthy connection returned {} different bytes", algo, p.len(), v.len())));
        }
        tokio::time::sleep(Duration::from_millis(50)).await;
    }
    if !est {
        listen.abort();
        return Err(inc("precondition not reached: no request was answered before the first cut".into()));
    }
    let mut ok = 0u64;
    // every request/reply size combination on the healthy connection first
    for _ in 0..8 {
        n += 1;
        let p = payload(n, &mut rng);
        match tokio::time::timeout(Duration::from_secs(40), rq.request(p.clone())).await {
            Ok(Ok(v)) if v == c14_reply_for(&p) => ok += 1,
            Ok(Ok(v)) => {
                listen.abort();
                return Err(("wire-composition/reply-differs".into(), format!("{}: a {}-byte request on a healthy connection returned Ok with {} bytes that are not the reply to it (expected {} bytes)", algo, p.len(), v.len(), c14_reply_for(&p).len())));
            }
            Ok(Err(e)) => {
                listen.abort();
                return Err(("wire-composition/call-failed".into(), format!("{}: a {}-byte request on a healthy connection failed: {}", algo, p.len(), e)));
            }
            Err(_) => {
                listen.abort();
                return Err(("requestor/hangs".into(), format!("{}: request() did not return within 40 s on a healthy connection", algo)));
            }
        }
    }
    for o in 0..outages {
        cut(&cr).await;
        for k in 0..5 {
            n += 1;
            let p = payload(n, &mut rng);
            match tokio::time::timeout(Duration::from_secs(40), rq.request(p.clone())).await {
                Err(_) => {
                    listen.abort();
                    return Err(("requestor/hangs-after-cut".into(), format!("{}: outage #{}: request() did not return within 40 s", algo, o + 1)));
                }
                Ok(Ok(v)) if v == c14_reply_for(&p) => ok += 1,
                Ok(Ok(v)) => {
                    listen.abort();
                    let handler_saw = seen.lock().unwrap().last().cloned().unwrap_or_default();
                    return Err((
                        "wire-composition/value-differs-after-recovery".into(),
                        format!(
                            "{}: outage #{}: call #{} after the cut sent {} bytes, request() returned Ok with {} bytes that are not the reply to it; the replier's handler received {} bytes starting {}",
                            algo,
                            o + 1,
                            k + 1,
                            p.len(),
                            v.len(),
                            handler_saw.len(),
                            crate::common::hex_trunc(&handler_saw, 8)
                        ),
                    ));
                }
                Ok(Err(e)) => {
                    if k == 0 && !is_too_many(&e) {
                        continue; // the call that met the broken connection may fail
                    }
                    listen.abort();
                    return Err(("requestor/not-working-after-recovery/compressed".into(), format!("{}: outage #{}: call #{} after the cut failed with {:?} although replier and server were up", algo, o + 1, k + 1, e.to_string())));
                }
            }
        }
        // nothing the handler ever received may differ from what some call sent (all payloads start with "call-")
        if let Some(bad) = seen.lock().unwrap().iter().find(|b| !b.starts_with(b"call-")) {
            listen.abort();
            return Err(("wire-composition/handler-received-garbage".into(), format!("{}: outage #{}: the replier's handler was handed {} bytes starting {} — not a payload any call sent", algo, o + 1, bad.len(), crate::common::hex_trunc(bad, 8))));
        }
    }
    listen.abort();
    Ok(ok)
}

/// C14's L3 stage: the wire composition through the real client library, including the re-send after a reconnect
pub fn run_c14(rep: &mut StageReport, tier: &str, _seed: u64) {
    let thorough = tier == "thorough";
    let rt = runtime(6);
    let mark = panic_mark();
    let certs = match gen_certs() {
        Ok(c) => c,
        Err(e) => {
            rep.inconclusive(&format!("certificate generation failed: {e}"));
            return;
        }
    };
    let algos: &[&'static str] = if thorough { &["gzip", "zlib", "zstd", "lz4", "brotli-generic", "zstd-fastest", "gzip-fastest", "brotli-text"] } else { &["gzip", "zstd", "lz4"] };
    let results: Vec<(&'static str, std::result::Result<u64, (String, String)>)> = rt.block_on(async {
        let server = match start_server(&certs) {
            Ok(s) => s,
            Err(e) => return vec![("server", Err(("INCONCLUSIVE".to_string(), format!("server start: {e}"))))],
        };
        let mut out = vec![];
        for (i, algo) in algos.iter().enumerate() {
            let bo = BackoffStrategy::constant().with_max_attempts(4).with_step(Duration::from_millis(20));
            let r = match tokio::time::timeout(Duration::from_secs(300), compressed_requestor_recovers(server.addr, &certs, bo, if thorough { 5 } else { 2 }, i as u64, algo)).await {
                Ok(r) => r,
                Err(_) => Err(("INCONCLUSIVE".to_string(), "watchdog: scenario did not finish in 300 s".to_string())),
            };
            out.push((*algo, r));
        }
        // the pub/sub leg of the composition: batches of 5–11 incompressible messages that add up to 1.3–3 MiB, so
        // that the publisher has to spread one batch over several frames; every message must come out again
        for (k, (n, each)) in [(5usize, 300_000usize), (7, 250_000), (10, 250_000), (11, 200_000), (6, 400_000), (9, 120_000)].into_iter().enumerate() {
            if !thorough && k >= 4 {
                continue;
            }
            let comp = [None, Some("zstd"), Some("lz4"), Some("gzip")][k % 4];
            let cfg = super::c03::Cfg { codec: "bytes", compression: comp.map(|s| s.to_string()), batch: Some((n as u32, 3_600_000)), count: n, payload: each, sizes: None, compressible: false, precompressed: false, id: 94_000 + k as u64 };
            let r = match tokio::time::timeout(Duration::from_secs(120), super::c03::run_bytes_cfg(server.endpoint(), certs.clone(), cfg, k as u64)).await {
                Ok(super::c03::Outcome::Held { delivered }) => Ok(delivered as u64),
                Ok(super::c03::Outcome::Violated { sig, detail }) => Err((format!("wire-composition/batched/{}", sig), format!("batch of {} × {} incompressible bytes, compression {:?}: {}", n, each, comp, detail))),
                Ok(super::c03::Outcome::Inconclusive(why)) => Err(("INCONCLUSIVE".to_string(), why)),
                Err(_) => Err(("INCONCLUSIVE".to_string(), "watchdog: batched configuration did not finish in 120 s".to_string())),
            };
            out.push((["batched/none", "batched/zstd", "batched/lz4", "batched/gzip"][k % 4], r));
        }
        server.stop();
        out
    });
    for (algo, r) in results {
        rep.evaluations += 1;
        match r {
            Ok(n) => {
                rep.distinct.insert(crate::common::mix(rep.evaluations, crate::common::fnv(algo.as_bytes())));
                rep.count("l3_values_with_exact_round_trip", n);
                rep.sample(json!({"l3": "library Requestor (request compression, reply decompression) ↔ library Replier (request decompression, reply compression) across connection losses of the requestor", "algorithm": algo, "calls_returning_the_exact_bytes": n}));
            }
            Err((sig, why)) if sig == "INCONCLUSIVE" => rep.inconclusive(&why),
            Err((sig, detail)) => {
                let replay = write_replay("C14", &format!("l3-{}", sig.replace('/', "_")), 0, json!({"property": "C14", "detail": detail}));
                rep.violation(Violation { signature: format!("C14/l3/{}", sig), detail, replay });
            }
        }
    }
    for p in repo_panics_since(mark) {
        rep.violation(Violation { signature: format!("C14/l3/panic/{}", crate::routersim::exec::normalise_location(&p.location)), detail: format!("panic at {}: {}", p.location, p.message), replay: String::new() });
    }
    rep.rule = "L3: one evaluation = one compression algorithm: library Requestor and library Replier with compression on both legs through the in-process server; the requestor's connection is cut repeatedly; every call that returns Ok must return the exact bytes sent, and the replier's handler must only ever see bytes some call sent".into();
}

/// A requestor and its clones share the request-id counter and the pending-call map; after a connection
/// loss every clone re-establishes its *own* stream. Concurrent calls on the recovered clones must still
/// each get their own reply. Returns (calls that returned their own reply, wrong replies, failed calls).
pub async fn requestor_clones_after_recovery(addr: SocketAddr, certs: &Certs, bo: BackoffStrategy, outages: usize, n_clones: usize, burst: usize, id: u64) -> std::result::Result<(u64, Vec<String>, Vec<String>), String> {
    let topic = format!("/c12clones/top{}", id);
    let (_rc, echo) = raw_echo(addr, certs, &topic).await.map_err(|e| e.to_string())?;
    let cr = lib_client(&addr.to_string(), certs, Some(bo)).await.map_err(|e| e.to_string())?;
    let mut rq = cr.requestor(&topic).with_request_encoder(StringCodec).with_reply_decoder(StringCodec).with_request_timeout(2500u64).map_err(|e| e.to_string())?.open().await.map_err(|e| e.to_string())?;
    let mut est = false;
    for n in 0..20 {
        if let Ok(v) = rq.request(format!("est-{}", n)).await {
            if v == format!("re:est-{}", n) {
                est = true;
                break;
            }
        }
    }
    if !est {
        echo.abort();
        return Err("precondition not reached: no request was answered before the first cut".into());
    }
    let mut clones: Vec<_> = (0..n_clones).map(|_| rq.clone()).collect();
    clones.push(rq);
    let mut ok = 0u64;
    let mut wrong = vec![];
    let mut failed = vec![];
    for o in 0..=outages {
        // even outages: every clone recovers one after the other before the burst;
        // odd outages ("staggered"): the burst starts right after the cut, so clones recover at different times
        // while other, already recovered clones have calls outstanding
        let staggered = o % 2 == 1;
        if o > 0 {
            cr.verif_close_connection().await;
        }
        if o > 0 && !staggered {
            // every clone notices the loss with its next call (which may fail) and re-establishes its own stream
            for (ci, c) in clones.iter_mut().enumerate() {
                for attempt in 0..3 {
                    let p = format!("recover-o{}-c{}-a{}", o, ci, attempt);
                    match tokio::time::timeout(Duration::from_secs(40), c.request(p.clone())).await {
                        Ok(Ok(v)) if v == format!("re:{}", p) => break,
                        Ok(Ok(v)) => wrong.push(format!("request {:?} returned Ok({:?})", p, v)),
                        Ok(Err(_)) => {}
                        Err(_) => {
                            echo.abort();
                            return Err(format!("VIOLATION hang: request() on clone {} did not return within 40 s after outage {}", ci, o));
                        }
                    }
                }
            }
        }
        // concurrent burst on all clones
        let mut tasks = vec![];
        // every recovered clone is used by 8 concurrent callers (further clones of it share its stream), so
        // that dispatches on *different* streams interleave densely
        let mut keep = vec![];
        for (ci, c) in clones.drain(..).enumerate() {
            for sub in 0..8usize {
                let mut c2 = c.clone();
                tasks.push(tokio::spawn(async move {
                    let mut res = vec![];
                    if staggered {
                        // callers come back one after the other: a caller re-establishes its stream while the
                        // callers before it are already back in steady state with calls outstanding
                        tokio::time::sleep(Duration::from_millis(((ci * 8 + sub) * 3) as u64)).await;
                    }
                    for k in 0..(if staggered { burst * 4 } else { burst }) {
                        let p = format!("burst-o{}-c{}-s{}-k{}", o, ci, sub, k);
                        let r = tokio::time::timeout(Duration::from_secs(40), c2.request(p.clone())).await;
                        res.push((p, r.map(|x| x.map_err(|e| (matches!(e, SeliumError::RequestTimeout), e.to_string()))).map_err(|_| "no return within 40 s".to_string())));
                    }
                    res
                }));
            }
            keep.push(c);
        }
        clones = keep;
        for t in tasks {
            let res = t.await.map_err(|e| format!("harness task: {e}"))?;
            // in a staggered phase a caller's calls may fail until its first success (it is still recovering)
            let mut recovered = !staggered || o == 0;
            for (p, r) in res {
                match r {
                    Ok(Ok(v)) if v == format!("re:{}", p) => {
                        ok += 1;
                        recovered = true;
                    }
                    Ok(Ok(v)) => wrong.push(format!("request {:?} returned Ok({:?})", p, v)),
                    Ok(Err((is_timeout, e))) => {
                        if recovered && !is_timeout {
                            failed.push(format!("request {:?} failed after its caller had recovered: {}", p, e));
                        }
                    }
                    Err(e) => failed.push(format!("request {:?}: {}", p, e)),
                }
            }
        }
    }
    echo.abort();
    Ok((ok, wrong, failed))
}

async fn replier_recovers(addr: SocketAddr, certs: &Certs, bo: BackoffStrategy, outages: usize, id: u64) -> std::result::Result<u64, V> {
    let inc = |e: String| V("INCONCLUSIVE".into(), e);
    let topic = format!("/c12rep/top{}", id);
    let cl = lib_client(&addr.to_string(), certs, Some(bo)).await.map_err(|e| inc(e.to_string()))?;
    let mut replier = cl
        .replier(&topic)
        .with_request_decoder(StringCodec)
        .with_reply_encoder(StringCodec)
        .with_handler(|req: String| async move { Ok::<String, std::convert::Infallible>(format!("re:{}", req)) })
        .open()
        .await
        .map_err(|e| inc(e.to_string()))?;
    let listen = tokio::spawn(async move { replier.listen().await });
    let rc = raw_connect(addr, certs).await.map_err(|e| inc(e.to_string()))?;
    let (mut rq, r) = rc.open(reg(3, &topic), Duration::from_secs(8)).await.map_err(|e| inc(e.to_string()))?;
    if r != Some(Frame::Ok) {
        return Err(inc(format!("raw requestor answered {:?}", r)));
    }
    let mut n = 0u64;
    let mut answered = 0u64;
    let mut mk = |tag: String| -> Frame {
        n += 1;
        let mut h = HashMap::new();
        h.insert("req_id".to_string(), n.to_string());
        Frame::Message(MessagePayload { headers: Some(h), message: Bytes::from(tag) })
    };
    async fn answered_within(rq: &mut BiStream, want: &str, within: Duration) -> bool {
        let t0 = Instant::now();
        while t0.elapsed() < within {
            match tokio::time::timeout(Duration::from_millis(200), rq.next()).await {
                Ok(Some(Ok(Frame::Message(m)))) if m.message.starts_with(want.as_bytes()) => return true,
                Ok(Some(Ok(_))) => {}
                Ok(_) => return false,
                Err(_) => return false,
            }
        }
        false
    }
    // establish
    let mut est = false;
    for i in 0..60 {
        let _ = rq.send(mk(format!("est{}", i))).await;
        if answered_within(&mut rq, "re:est", Duration::from_millis(300)).await {
            est = true;
            break;
        }
    }
    if !est {
        listen.abort();
        return Err(inc("precondition not reached: the replier never answered".into()));
    }
    for o in 0..outages {
        cut(&cl).await;
        // requests are re-sent until one is answered again
        let t0 = Instant::now();
        let mut back = false;
        let mut k = 0;
        while t0.elapsed() < Duration::from_secs(25) {
            k += 1;
            let _ = rq.send(mk(format!("o{}k{}", o, k))).await;
            if answered_within(&mut rq, &format!("re:o{}k", o), Duration::from_millis(300)).await {
                back = true;
                break;
            }
            if listen.is_finished() {
                break;
            }
        }
        if !back {
            let why = if listen.is_finished() {
                match listen.await {
                    Ok(Err(e)) => format!("listen() returned Err({})", e),
                    Ok(Ok(())) => "listen() returned Ok".into(),
                    Err(e) => format!("listen task: {e}"),
                }
            } else {
                listen.abort();
                "listen() is still running".to_string()
            };
            let sig = if why.contains("Too many") { "replier/gave-up-although-server-reachable" } else { "replier/not-recovered" };
            return Err(V(sig.into(), format!("outage #{} (of {}, max_attempts per outage configured): no request was answered within 25 s after the replier's connection was cut; {}", o + 1, outages, why)));
        }
        answered += 1;
    }
    listen.abort();
    Ok(answered)
}


// ---------------------------------------------------------------------------------------
// protocol-level fake server: records every registration frame, plays the far end of each role and
// closes connections from its side (remote-initiated loss)
// ---------------------------------------------------------------------------------------
pub struct FakeServer {
    pub addr: SocketAddr,
    pub regs: Arc<Mutex<Vec<Frame>>>,
    conns: Arc<Mutex<Vec<quinn::Connection>>>,
    task: tokio::task::JoinHandle<()>,
}

impl FakeServer {
    pub fn start(certs: &Certs) -> Result<FakeServer> {
        use selium_server::quic::{load_root_store, read_certs, server_config, ConfigOptions};
        let roots = load_root_store(certs.server_ca())?;
        let (chain, key) = read_certs(certs.server_cert(), certs.server_key())?;
        let cfg = server_config(roots, chain, key, ConfigOptions { keylog: false, stateless_retry: false, max_idle_timeout: quinn::IdleTimeout::from(quinn::VarInt::from_u32(15_000)) })?;
        let endpoint = quinn::Endpoint::server(cfg, "127.0.0.1:0".parse().unwrap())?;
        let addr = endpoint.local_addr()?;
        let regs = Arc::new(Mutex::new(vec![]));
        let conns = Arc::new(Mutex::new(vec![]));
        let (r2, c2) = (regs.clone(), conns.clone());
        let task = tokio::spawn(async move {
            while let Some(connecting) = endpoint.accept().await {
                let (regs, conns) = (r2.clone(), c2.clone());
                tokio::spawn(async move {
                    let Ok(conn) = connecting.await else { return };
                    conns.lock().unwrap().push(conn.clone());
                    while let Ok(stream) = conn.accept_bi().await {
                        let regs = regs.clone();
                        tokio::spawn(async move {
                            let mut s = BiStream::from(stream);
                            let Some(Ok(first)) = s.next().await else { return };
                            regs.lock().unwrap().push(first.clone());
                            if s.send(Frame::Ok).await.is_err() {
                                return;
                            }
                            match first {
                                Frame::RegisterPublisher(_) => while let Some(Ok(_)) = s.next().await {},
                                Frame::RegisterSubscriber(_) => {
                                    let mut n = 0u64;
                                    loop {
                                        n += 1;
                                        let f = Frame::Message(MessagePayload { headers: None, message: Bytes::from(format!("{}", n)) });
                                        if s.send(f).await.is_err() {
                                            break;
                                        }
                                        tokio::time::sleep(Duration::from_millis(4)).await;
                                    }
                                }
                                Frame::RegisterRequestor(_) => {
                                    while let Some(Ok(f)) = s.next().await {
                                        if let Frame::Message(m) = f {
                                            let mut body = b"re:".to_vec();
                                            body.extend_from_slice(&m.message);
                                            if s.send(Frame::Message(MessagePayload { headers: m.headers, message: Bytes::from(body) })).await.is_err() {
                                                break;
                                            }
                                        }
                                    }
                                }
                                Frame::RegisterReplier(_) => {
                                    let mut n = 0u64;
                                    loop {
                                        n += 1;
                                        let mut h = HashMap::new();
                                        h.insert("cid".to_string(), "0".to_string());
                                        h.insert("req_id".to_string(), n.to_string());
                                        if s.send(Frame::Message(MessagePayload { headers: Some(h), message: Bytes::from(format!("ask{}", n)) })).await.is_err() {
                                            break;
                                        }
                                        match tokio::time::timeout(Duration::from_millis(300), s.next()).await {
                                            Ok(Some(Ok(_))) | Err(_) => {}
                                            _ => break,
                                        }
                                        tokio::time::sleep(Duration::from_millis(20)).await;
                                    }
                                }
                                _ => {}
                            }
                        });
                    }
                });
            }
        });
        Ok(FakeServer { addr, regs, conns, task })
    }
    /// remote-initiated connection loss
    pub fn close_all(&self) {
        for c in self.conns.lock().unwrap().drain(..) {
            c.close(quinn::VarInt::from_u32(2), b"fake server drops the connection");
        }
    }
    pub fn stop(&self) {
        self.task.abort();
    }
}

/// the stream must re-register with a frame identical to its original registration ("same settings")
async fn reregistration(role: usize, certs: &Certs, outages: usize) -> std::result::Result<u64, V> {
    use selium::prelude::{Operations, Retain};
    let inc = |e: String| V("INCONCLUSIVE".into(), e);
    let fake = FakeServer::start(certs).map_err(|e| inc(format!("fake server: {e}")))?;
    let role_name = ["publisher", "subscriber", "requestor", "replier"][role];
    let bo = BackoffStrategy::constant().with_max_attempts(3).with_step(Duration::from_millis(10));
    let client = lib_client(&fake.addr.to_string(), certs, Some(bo)).await.map_err(|e| inc(format!("connect to fake server: {e}")))?;
    let topic = format!("/c12same/{}", role_name);
    let mut units = 0u64;
    match role {
        0 => {
            let mut p = client
                .publisher(&topic)
                .with_encoder(StringCodec)
                .retain(Duration::from_secs(7))
                .map_err(|e| inc(e.to_string()))?
                .map("first/module.wasm")
                .filter("second/module.wasm")
                .open()
                .await
                .map_err(|e| inc(e.to_string()))?;
            for o in 0..outages {
                p.send(format!("before-{}", o)).await.map_err(|e| inc(format!("send before cut: {e}")))?;
                tokio::time::sleep(Duration::from_millis(50)).await;
                fake.close_all();
                let mut ok = 0;
                for k in 0..200 {
                    match tokio::time::timeout(Duration::from_secs(30), p.send(format!("after-{}-{}", o, k))).await {
                        Ok(Ok(())) => ok += 1,
                        Ok(Err(e)) => return Err(V("publisher/error-after-remote-close".into(), format!("outage #{}: send failed with {:?} after the server closed the connection", o + 1, e.to_string()))),
                        Err(_) => return Err(V("publisher/hangs-after-remote-close".into(), format!("outage #{}: send() did not return within 30 s", o + 1))),
                    }
                    if fake.regs.lock().unwrap().len() >= o + 2 && ok >= 3 {
                        break;
                    }
                    tokio::time::sleep(Duration::from_millis(10)).await;
                }
                units += ok;
            }
        }
        1 => {
            let mut sub = client
                .subscriber(&topic)
                .with_decoder(StringCodec)
                .retain(Duration::from_secs(9))
                .map_err(|e| inc(e.to_string()))?
                .filter("only/this.wasm")
                .open()
                .await
                .map_err(|e| inc(e.to_string()))?;
            for o in 0..outages {
                for _ in 0..5 {
                    match tokio::time::timeout(Duration::from_secs(10), sub.next()).await {
                        Ok(Some(Ok(_))) => units += 1,
                        other => return Err(V("subscriber/error-while-connected".into(), format!("outage {}: {:?}", o, other.map(|x| x.map(|y| y.map_err(|e| e.to_string())))))),
                    }
                }
                fake.close_all();
                let t0 = Instant::now();
                loop {
                    match tokio::time::timeout(Duration::from_secs(20), sub.next()).await {
                        Ok(Some(Ok(_))) => {
                            units += 1;
                            if fake.regs.lock().unwrap().len() >= o + 2 {
                                break;
                            }
                        }
                        Ok(Some(Err(e))) => return Err(V("subscriber/error-after-remote-close".into(), format!("outage #{}: yielded {:?}", o + 1, e.to_string()))),
                        Ok(None) => return Err(V("subscriber/ended-after-remote-close".into(), format!("outage #{}: stream ended", o + 1))),
                        Err(_) => return Err(V("subscriber/hangs-after-remote-close".into(), format!("outage #{}: nothing yielded for 20 s", o + 1))),
                    }
                    if t0.elapsed() > Duration::from_secs(40) {
                        return Err(V("subscriber/not-reregistered".into(), format!("outage #{}: no second registration reached the server within 40 s", o + 1)));
                    }
                }
            }
        }
        2 => {
            let mut rq = client.requestor(&topic).with_request_encoder(StringCodec).with_reply_decoder(StringCodec).with_request_timeout(1000u64).map_err(|e| inc(e.to_string()))?.open().await.map_err(|e| inc(e.to_string()))?;
            for o in 0..outages {
                let v = rq.request(format!("before-{}", o)).await.map_err(|e| inc(format!("request before cut: {e}")))?;
                if v != format!("re:before-{}", o) {
                    return Err(V("requestor/wrong-reply".into(), format!("got {:?}", v)));
                }
                fake.close_all();
                let _ = tokio::time::timeout(Duration::from_secs(40), rq.request(format!("cut-{}", o))).await;
                for k in 0..3 {
                    match tokio::time::timeout(Duration::from_secs(40), rq.request(format!("after-{}-{}", o, k))).await {
                        Ok(Ok(v)) if v == format!("re:after-{}-{}", o, k) => units += 1,
                        other => return Err(V("requestor/not-working-after-remote-close".into(), format!("outage #{}: call #{} after the server closed the connection: {:?}", o + 1, k + 2, other.map(|r| r.map_err(|e| e.to_string()))))),
                    }
                }
            }
        }
        _ => {
            let mut rp = client
                .replier(&topic)
                .with_request_decoder(StringCodec)
                .with_reply_encoder(StringCodec)
                .with_handler(|req: String| async move { Ok::<String, std::convert::Infallible>(format!("re:{}", req)) })
                .open()
                .await
                .map_err(|e| inc(e.to_string()))?;
            let listen = tokio::spawn(async move { rp.listen().await });
            for o in 0..outages {
                tokio::time::sleep(Duration::from_millis(150)).await;
                fake.close_all();
                let t0 = Instant::now();
                while fake.regs.lock().unwrap().len() < o + 2 {
                    if listen.is_finished() || t0.elapsed() > Duration::from_secs(30) {
                        let why = if listen.is_finished() { "listen() returned" } else { "no re-registration within 30 s" };
                        listen.abort();
                        return Err(V("replier/not-reregistered-after-remote-close".into(), format!("outage #{}: {}", o + 1, why)));
                    }
                    tokio::time::sleep(Duration::from_millis(20)).await;
                }
                units += 1;
            }
            listen.abort();
        }
    }
    let regs = fake.regs.lock().unwrap().clone();
    fake.stop();
    if regs.len() < outages + 1 {
        return Err(V(format!("{}/not-reregistered", role_name), format!("{} outages, but only {} registration frames reached the server", outages, regs.len())));
    }
    for (i, r) in regs.iter().enumerate().skip(1) {
        if *r != regs[0] {
            return Err(V(
                format!("{}/reregistered-with-different-settings", role_name),
                format!("registration #{} differs from the original: original {:?}, re-registration {:?}", i + 1, regs[0], r),
            ));
        }
    }
    Ok(units)
}


/// Silent network loss: the relay black-holes the packets of the existing connection; the client has to notice
/// through QUIC's idle timeout and then re-establish the stream through the (reachable) server.
async fn blackhole_outage(role: usize, certs: &Certs, id: u64) -> std::result::Result<u64, V> {
    let inc = |e: String| V("INCONCLUSIVE".into(), e);
    let server = start_server(certs).map_err(|e| inc(e.to_string()))?;
    let relay = Relay::start(server.addr).await.map_err(|e| inc(e.to_string()))?;
    let topic = format!("/c12hole/r{}x{}", role, id);
    let bo = BackoffStrategy::constant().with_max_attempts(3).with_step(Duration::from_millis(20));
    let via_relay = lib_client(&relay.addr.to_string(), certs, Some(bo)).await.map_err(|e| inc(format!("connect through relay: {e}")))?;
    let direct = lib_client(&server.addr.to_string(), certs, None).await.map_err(|e| inc(e.to_string()))?;
    let limit = Duration::from_secs(75);
    let r = match role {
        0 => {
            let mut sub = direct.subscriber(&topic).with_decoder(StringCodec).open().await.map_err(|e| inc(e.to_string()))?;
            let mut p = via_relay.publisher(&topic).with_encoder(StringCodec).open().await.map_err(|e| inc(e.to_string()))?;
            p.send("before".to_string()).await.map_err(|e| inc(e.to_string()))?;
            let _ = tokio::time::timeout(Duration::from_secs(5), sub.next()).await;
            relay.blackhole_existing();
            let t0 = Instant::now();
            let mut n = 0u64;
            loop {
                n += 1;
                match tokio::time::timeout(Duration::from_secs(60), p.send(format!("after-{}", n))).await {
                    Ok(Ok(())) => {}
                    Ok(Err(e)) => break Err(V("publisher/error-after-silent-loss".into(), format!("send failed with {:?} after the network silently dropped the connection (server reachable)", e.to_string()))),
                    Err(_) => break Err(V("publisher/hangs-after-silent-loss".into(), "send() did not return within 60 s".into())),
                }
                match tokio::time::timeout(Duration::from_millis(300), sub.next()).await {
                    Ok(Some(Ok(s))) if s.starts_with("after-") => break Ok(n),
                    _ => {}
                }
                if t0.elapsed() > limit {
                    break Err(V("publisher/not-recovered-after-silent-loss".into(), format!("{} items published over {:?} after the silent loss, none reached the subscriber", n, limit)));
                }
                tokio::time::sleep(Duration::from_millis(200)).await;
            }
        }
        1 => {
            let mut sub = via_relay.subscriber(&topic).with_decoder(StringCodec).open().await.map_err(|e| inc(e.to_string()))?;
            let mut p = direct.publisher(&topic).with_encoder(StringCodec).open().await.map_err(|e| inc(e.to_string()))?;
            let feeder = tokio::spawn(async move {
                let mut n = 0u64;
                loop {
                    n += 1;
                    if p.send(format!("{}", n)).await.is_err() {
                        break;
                    }
                    tokio::time::sleep(Duration::from_millis(20)).await;
                }
            });
            let first = tokio::time::timeout(Duration::from_secs(10), sub.next()).await;
            if !matches!(first, Ok(Some(Ok(_)))) {
                feeder.abort();
                return Err(inc("precondition not reached: nothing arrived before the loss".into()));
            }
            relay.blackhole_existing();
            // drain what was already delivered locally, then wait for new items
            let t0 = Instant::now();
            let mut last: Option<u64> = None;
            let mut fresh = 0u64;
            let res = loop {
                match tokio::time::timeout(Duration::from_secs(60), sub.next()).await {
                    Ok(Some(Ok(s))) => {
                        let n: u64 = s.parse().unwrap_or(0);
                        if t0.elapsed() > Duration::from_secs(3) && last.map_or(true, |l| n > l) {
                            fresh += 1;
                            if fresh >= 10 {
                                break Ok(fresh);
                            }
                        }
                        last = Some(n);
                    }
                    Ok(Some(Err(e))) => break Err(V("subscriber/error-after-silent-loss".into(), format!("yielded {:?}", e.to_string()))),
                    Ok(None) => break Err(V("subscriber/ended-after-silent-loss".into(), "stream ended".into())),
                    Err(_) => break Err(V("subscriber/hangs-after-silent-loss".into(), "nothing yielded for 60 s while a publisher kept publishing".into())),
                }
                if t0.elapsed() > limit {
                    break Err(V("subscriber/not-recovered-after-silent-loss".into(), format!("no fresh items within {:?}", limit)));
                }
            };
            feeder.abort();
            res
        }
        2 => {
            let (_rc, echo) = raw_echo(server.addr, certs, &topic).await.map_err(|e| inc(e.to_string()))?;
            let mut rq = via_relay.requestor(&topic).with_request_encoder(StringCodec).with_reply_decoder(StringCodec).with_request_timeout(1500u64).map_err(|e| inc(e.to_string()))?.open().await.map_err(|e| inc(e.to_string()))?;
            let mut est = false;
            for _ in 0..20 {
                if rq.request("before".to_string()).await.is_ok() {
                    est = true;
                    break;
                }
            }
            if !est {
                return Err(inc("precondition not reached".into()));
            }
            relay.blackhole_existing();
            let t0 = Instant::now();
            let mut n = 0u64;
            let res = loop {
                n += 1;
                let p = format!("after-{}", n);
                match tokio::time::timeout(Duration::from_secs(60), rq.request(p.clone())).await {
                    Ok(Ok(v)) if v == format!("re:{}", p) => break Ok(n),
                    Ok(Ok(v)) => break Err(V("requestor/wrong-reply-after-silent-loss".into(), format!("{:?} returned {:?}", p, v))),
                    Ok(Err(e)) if is_too_many(&e) => break Err(V("requestor/gave-up-after-silent-loss".into(), "too-many-retries although the server is reachable".into())),
                    Ok(Err(_)) => {}
                    Err(_) => break Err(V("requestor/hangs-after-silent-loss".into(), "request() did not return within 60 s".into())),
                }
                if t0.elapsed() > limit {
                    break Err(V("requestor/not-recovered-after-silent-loss".into(), format!("{} calls over {:?}, none answered", n, limit)));
                }
            };
            echo.abort();
            res
        }
        _ => {
            let mut rp = via_relay
                .replier(&topic)
                .with_request_decoder(StringCodec)
                .with_reply_encoder(StringCodec)
                .with_handler(|req: String| async move { Ok::<String, std::convert::Infallible>(format!("re:{}", req)) })
                .open()
                .await
                .map_err(|e| inc(e.to_string()))?;
            let listen = tokio::spawn(async move { rp.listen().await });
            let rc = raw_connect(server.addr, certs).await.map_err(|e| inc(e.to_string()))?;
            let (mut rq, r) = rc.open(reg(3, &topic), Duration::from_secs(8)).await.map_err(|e| inc(e.to_string()))?;
            if r != Some(Frame::Ok) {
                return Err(inc(format!("raw requestor answered {:?}", r)));
            }
            let mut ask = |k: u64| {
                let mut h = HashMap::new();
                h.insert("req_id".to_string(), k.to_string());
                Frame::Message(MessagePayload { headers: Some(h), message: Bytes::from(format!("q{}", k)) })
            };
            let mut est = false;
            for k in 0..40 {
                let _ = rq.send(ask(k)).await;
                if let Ok(Some(Ok(Frame::Message(_)))) = tokio::time::timeout(Duration::from_millis(300), rq.next()).await {
                    est = true;
                    break;
                }
            }
            if !est {
                listen.abort();
                return Err(inc("precondition not reached: replier never answered".into()));
            }
            relay.blackhole_existing();
            let t0 = Instant::now();
            let mut k = 1000u64;
            let res = loop {
                k += 1;
                let _ = rq.send(ask(k)).await;
                match tokio::time::timeout(Duration::from_millis(500), rq.next()).await {
                    Ok(Some(Ok(Frame::Message(m)))) if m.message.starts_with(format!("re:q{}", k).as_bytes()) => break Ok(k - 1000),
                    _ => {}
                }
                if listen.is_finished() {
                    break Err(V("replier/gave-up-after-silent-loss".into(), "listen() returned although the server is reachable".into()));
                }
                if t0.elapsed() > limit {
                    break Err(V("replier/not-recovered-after-silent-loss".into(), format!("no request answered within {:?} after the silent loss", limit)));
                }
            };
            listen.abort();
            res
        }
    };
    relay.stop();
    server.stop();
    r
}

// ---------------------------------------------------------------------------------------
// exhaustion and unrecoverable errors (relay)
// ---------------------------------------------------------------------------------------
async fn exhaustion(role: usize, certs_a: &Certs, certs_b: &Certs, attempts: u32, id: u64, unrecoverable: bool) -> std::result::Result<u64, V> {
    let inc = |e: String| V("INCONCLUSIVE".into(), e);
    let sa = start_server(certs_a).map_err(|e| inc(e.to_string()))?;
    // B: foreign CA (every attempt fails in the handshake); C: same CA, topic exists with the other pattern
    let sb = if unrecoverable { start_server(certs_a) } else { start_server(certs_b) }.map_err(|e| inc(e.to_string()))?;
    let relay = Relay::start(sa.addr).await.map_err(|e| inc(e.to_string()))?;
    let topic = format!("/c12ex/r{}x{}", role, id);
    if unrecoverable {
        // occupy the topic on C with the other messaging pattern
        let c = raw_connect(sb.addr, certs_a).await.map_err(|e| inc(e.to_string()))?;
        let other_kind = if role < 2 { 3 } else { 1 };
        let (s, r) = c.open(reg(other_kind, &topic), Duration::from_secs(8)).await.map_err(|e| inc(e.to_string()))?;
        if r != Some(Frame::Ok) {
            return Err(inc(format!("occupying the topic answered {:?}", r)));
        }
        std::mem::forget(s);
        std::mem::forget(c);
    }
    let bo = BackoffStrategy::constant().with_max_attempts(attempts).with_step(Duration::from_millis(15));
    let client = lib_client(&relay.addr.to_string(), certs_a, Some(bo)).await.map_err(|e| inc(format!("connect through relay: {e}")))?;
    let role_name = ["publisher", "subscriber", "requestor", "replier"][role];
    let deadline = Duration::from_secs(45);
    let verdict = |r: std::result::Result<SeliumError, &'static str>, flows: u64| -> std::result::Result<u64, V> {
        match r {
            Ok(e) => {
                if unrecoverable {
                    match e {
                        SeliumError::OpenStream(code, _) => {
                            if flows > 1 {
                                return Err(V(format!("{}/unrecoverable-error-retried", role_name), format!("re-registration was refused with non-retryable code {} but {} connection attempts were made", code, flows)));
                            }
                            Ok(flows)
                        }
                        other => Err(V(format!("{}/unrecoverable-error-misreported", role_name), format!("re-registration was refused with a non-retryable error, the stream reported {:?}", other.to_string()))),
                    }
                } else if is_too_many(&e) {
                    if flows != attempts as u64 {
                        return Err(V(format!("{}/wrong-number-of-attempts", role_name), format!("configured {} attempts per outage, {} connection attempts were observed before too-many-retries", attempts, flows)));
                    }
                    Ok(flows)
                } else {
                    Err(V(format!("{}/exhaustion-misreported", role_name), format!("all {} reconnect attempts failed; the stream reported {:?} instead of too-many-retries", attempts, e.to_string())))
                }
            }
            Err(why) => Err(V(format!("{}/hangs-when-retries-exhausted", role_name), format!("all reconnect attempts fail fast ({} connection attempts observed), yet the stream {} within {:?}", flows, why, deadline))),
        }
    };
    let flows0;
    let out = match role {
        0 => {
            let mut p = client.publisher(&topic).with_encoder(StringCodec).open().await.map_err(|e| inc(e.to_string()))?;
            p.send("before".to_string()).await.map_err(|e| inc(e.to_string()))?;
            relay.retarget(sb.addr);
            flows0 = relay.flows.load(Ordering::SeqCst);
            client.verif_close_connection().await;
            let t0 = Instant::now();
            let mut res = Err("kept returning Ok/Pending");
            while t0.elapsed() < deadline {
                match tokio::time::timeout(Duration::from_secs(10), p.send("after".to_string())).await {
                    Ok(Ok(())) => tokio::time::sleep(Duration::from_millis(20)).await,
                    Ok(Err(e)) => {
                        res = Ok(e);
                        break;
                    }
                    Err(_) => {
                        res = Err("did not return from send()");
                        break;
                    }
                }
            }
            res
        }
        1 => {
            let mut s = client.subscriber(&topic).with_decoder(StringCodec).open().await.map_err(|e| inc(e.to_string()))?;
            relay.retarget(sb.addr);
            flows0 = relay.flows.load(Ordering::SeqCst);
            client.verif_close_connection().await;
            match tokio::time::timeout(deadline, s.next()).await {
                Ok(Some(Err(e))) => Ok(e),
                Ok(Some(Ok(_))) => Err("yielded an item"),
                Ok(None) => Err("ended without an error"),
                Err(_) => Err("yielded nothing"),
            }
        }
        2 => {
            let (_rc, echo) = raw_echo(sa.addr, certs_a, &topic).await.map_err(|e| inc(e.to_string()))?;
            let mut rq = client.requestor(&topic).with_request_encoder(StringCodec).with_reply_decoder(StringCodec).with_request_timeout(800u64).map_err(|e| inc(e.to_string()))?.open().await.map_err(|e| inc(e.to_string()))?;
            let mut est = false;
            for _ in 0..20 {
                if rq.request("before".to_string()).await.is_ok() {
                    est = true;
                    break;
                }
            }
            if !est {
                return Err(inc("precondition not reached: requestor never answered".into()));
            }
            relay.retarget(sb.addr);
            flows0 = relay.flows.load(Ordering::SeqCst);
            client.verif_close_connection().await;
            let r = match tokio::time::timeout(deadline, rq.request("after".to_string())).await {
                Ok(Err(e)) => Ok(e),
                Ok(Ok(_)) => Err("returned a reply"),
                Err(_) => Err("did not return from request()"),
            };
            echo.abort();
            r
        }
        _ => {
            let mut rp = client
                .replier(&topic)
                .with_request_decoder(StringCodec)
                .with_reply_encoder(StringCodec)
                .with_handler(|req: String| async move { Ok::<String, std::convert::Infallible>(req) })
                .open()
                .await
                .map_err(|e| inc(e.to_string()))?;
            relay.retarget(sb.addr);
            flows0 = relay.flows.load(Ordering::SeqCst);
            let c2 = client.clone();
            tokio::spawn(async move {
                tokio::time::sleep(Duration::from_millis(200)).await;
                c2.verif_close_connection().await;
            });
            match tokio::time::timeout(deadline, rp.listen()).await {
                Ok(Err(e)) => Ok(e),
                Ok(Ok(())) => Err("returned Ok from listen()"),
                Err(_) => Err("did not return from listen()"),
            }
        }
    };
    let flows = relay.flows.load(Ordering::SeqCst) - flows0;
    relay.stop();
    sa.stop();
    sb.stop();
    verdict(out, flows)
}

pub fn run(rep: &mut StageReport, tier: &str, _seed: u64) {
    let thorough = tier == "thorough";
    let rt = runtime(6);
    rep.max_samples = 16;
    let mark = panic_mark();
    let certs = match (gen_certs(), gen_certs()) {
        (Ok(a), Ok(b)) => (a, b),
        _ => {
            rep.inconclusive("certificate generation failed");
            return;
        }
    };
    // (role, backoff kind, attempts, step ms, outages, msgs before cut)
    let mut plan: Vec<(usize, usize, u32, u64, usize, usize)> = vec![];
    for role in 0..4 {
        plan.push((role, role, 3, 10, 5, 1)); // more outages than attempts: per-outage budget
        plan.push((role, role + 1, 1, 5, 3, 0)); // a single attempt per outage, cut before any further traffic
    }
    for role in 0..4 {
        // quick: two more configurations per role; thorough: five
        let extra: &[(usize, u32, u64, usize, usize)] = if thorough { &[(0, 2, 1, 12, 3), (1, 4, 20, 6, 0), (2, 3, 5, 10, 2), (0, 1, 1, 25, 1), (2, 2, 15, 8, 5)] } else { &[(2, 2, 3, 6, 2), (1, 4, 8, 5, 0)] };
        for (kind, attempts, step, outages, before) in extra.iter().copied() {
            plan.push((role, kind, attempts, step, outages, before));
        }
    }
    let mut cycles = 0u64;
    let results: Vec<(String, serde_json::Value, std::result::Result<u64, V>)> = rt.block_on(async {
        let mut out = vec![];
        let server = match start_server(&certs.0) {
            Ok(s) => s,
            Err(e) => return vec![("server".to_string(), json!({}), Err(V("INCONCLUSIVE".into(), format!("server start: {e}"))))],
        };
        for (i, (role, kind, attempts, step, outages, before)) in plan.iter().enumerate() {
            let bo = backoff(*kind, *attempts, *step);
            let role_name = ["publisher", "subscriber", "requestor", "replier"][*role];
            let bo_name = ["constant", "linear", "exponential(2)"][*kind % 3];
            let cfg = json!({"role": role_name, "backoff": bo_name, "max_attempts": attempts, "step_ms": step, "outages": outages, "items_before_each_cut": before});
            let fut = async {
                match role {
                    0 => publisher_recovers(server.addr, &certs.0, bo, *outages, *before, i as u64).await,
                    1 => subscriber_recovers(server.addr, &certs.0, bo, *outages, i as u64).await,
                    2 => requestor_recovers(server.addr, &certs.0, bo, *outages, i as u64).await,
                    _ => replier_recovers(server.addr, &certs.0, bo, *outages, i as u64).await,
                }
            };
            let r = match tokio::time::timeout(Duration::from_secs(400), fut).await {
                Ok(r) => r,
                Err(_) => Err(V("INCONCLUSIVE".into(), "watchdog: scenario did not finish in 400 s".into())),
            };
            out.push((format!("recovery/{}", role_name), cfg, r));
        }
        // request timeout far shorter than the first backoff delay: the reconnect must still be carried out
        // (a call may take longer than its reply timeout while the stream is being re-established)
        {
            let bo = BackoffStrategy::constant().with_max_attempts(3).with_step(Duration::from_millis(450));
            let cfg = json!({"role": "requestor", "backoff": "constant 450 ms", "max_attempts": 3, "request_timeout_ms": 150, "outages": 2});
            let r = match tokio::time::timeout(Duration::from_secs(400), requestor_recovers_t(server.addr, &certs.0, bo, 2, 77, 150)).await {
                Ok(r) => r,
                Err(_) => Err(V("INCONCLUSIVE".into(), "watchdog: scenario did not finish in 400 s".into())),
            };
            out.push(("recovery/requestor-short-timeout".to_string(), cfg, r));
        }
        // double cuts: the second cut hits the stream while it re-establishes itself (5 attempts of 100 ms: plenty)
        for (k, delay) in (if thorough { vec![1u64, 60, 95, 100, 105, 130, 200] } else { vec![100u64, 105] }).into_iter().enumerate() {
            for role in 1..4usize {
                if !thorough && (k + role) % 2 == 0 {
                    continue;
                }
                let bo = BackoffStrategy::constant().with_max_attempts(5).with_step(Duration::from_millis(100));
                let role_name = ["publisher", "subscriber", "requestor", "replier"][role];
                let cfg = json!({"role": role_name, "backoff": "constant 100 ms", "max_attempts": 5, "outages": 3, "second_cut_after_ms": delay});
                SECOND_CUT_MS.store(delay, Ordering::SeqCst);
                let fut = async {
                    match role {
                        1 => subscriber_recovers(server.addr, &certs.0, bo, 3, 300 + (k * 4 + role) as u64).await,
                        2 => requestor_recovers(server.addr, &certs.0, bo, 3, 300 + (k * 4 + role) as u64).await,
                        _ => replier_recovers(server.addr, &certs.0, bo, 3, 300 + (k * 4 + role) as u64).await,
                    }
                };
                let r = match tokio::time::timeout(Duration::from_secs(400), fut).await {
                    Ok(r) => r,
                    Err(_) => Err(V("INCONCLUSIVE".into(), "watchdog: double-cut scenario did not finish in 400 s".into())),
                };
                SECOND_CUT_MS.store(0, Ordering::SeqCst);
                let r = r.map_err(|V(sig, d)| if sig == "INCONCLUSIVE" { V(sig, d) } else { V(format!("{}/cut-again-while-re-establishing", sig), d) });
                out.push((format!("recovery/{}-double-cut", role_name), cfg, r));
            }
        }
        // several subscribers on one client lose their shared connection together; single-attempt budgets
        for (k, (n_subs, attempts, step, outages)) in [(3usize, 1u32, 200u64, 2usize), (5, 1, 20, 3), (4, 2, 5, 3)].into_iter().enumerate() {
            if !thorough && k == 2 {
                continue;
            }
            let bo = BackoffStrategy::constant().with_max_attempts(attempts).with_step(Duration::from_millis(step));
            let cfg = json!({"role": "subscriber", "streams_on_one_client": n_subs, "backoff": "constant", "max_attempts": attempts, "step_ms": step, "outages": outages});
            let r = match tokio::time::timeout(Duration::from_secs(400), shared_client_subscribers_recover(server.addr, &certs.0, bo, n_subs, outages, k as u64)).await {
                Ok(r) => r,
                Err(_) => Err(V("INCONCLUSIVE".into(), "watchdog: shared-client scenario did not finish in 400 s".into())),
            };
            out.push(("recovery/subscribers-sharing-a-client".to_string(), cfg, r));
        }
        // requestor with compression on both legs across outages (the re-sent call must carry the same bytes)
        for (k, algo) in ["gzip", "zstd"].into_iter().enumerate() {
            let bo = BackoffStrategy::constant().with_max_attempts(4).with_step(Duration::from_millis(20));
            let cfg = json!({"role": "requestor", "request_compression": algo, "reply_decompression": algo, "outages": 2});
            let r = match tokio::time::timeout(Duration::from_secs(300), compressed_requestor_recovers(server.addr, &certs.0, bo, 2, 50 + k as u64, algo)).await {
                Ok(Ok(n)) => Ok(n),
                Ok(Err((sig, d))) => Err(V(sig, d)),
                Err(_) => Err(V("INCONCLUSIVE".into(), "watchdog: scenario did not finish in 300 s".into())),
            };
            out.push(("recovery/requestor-compressed".to_string(), cfg, r));
        }
        // a recovered connection left idle for longer than the server's idle timeout
        {
            let cfg = json!({"role": "subscriber", "server_idle_timeout_ms": 2000, "client_keep_alive_ms": 500, "idle_after_recovery_ms": 2700});
            let r = match tokio::time::timeout(Duration::from_secs(120), idle_after_recovery(&certs.0, 1)).await {
                Ok(Ok(n)) => Ok(n),
                Ok(Err((sig, d))) => Err(V(if sig == "INCONCLUSIVE" { sig } else { format!("subscriber/{}", sig.trim_start_matches("subscriber/")) }, d)),
                Err(_) => Err(V("INCONCLUSIVE".into(), "watchdog: idle-after-recovery scenario did not finish in 120 s".into())),
            };
            out.push(("recovery/idle-after-recovery".to_string(), cfg, r));
        }
        // idle streams through more outages than an outage has attempts
        for (k, (attempts, outages)) in [(2u32, 4usize), (1, 3)].into_iter().enumerate() {
            if !thorough && k == 1 {
                continue;
            }
            let cfg = json!({"roles": "replier + subscriber on one client, idle", "backoff": "constant 20 ms", "max_attempts": attempts, "silent_outages": outages});
            let r = match tokio::time::timeout(Duration::from_secs(300), idle_streams_many_outages(server.addr, &certs.0, attempts, outages, k as u64)).await {
                Ok(r) => r,
                Err(_) => Err(V("INCONCLUSIVE".into(), "watchdog: idle-outages scenario did not finish in 300 s".into())),
            };
            out.push(("recovery/idle-streams".to_string(), cfg, r));
        }
        // publisher cut while blocked by back-pressure (caller flushes first / sends straight away)
        for bp_id in if thorough { vec![1u64, 3, 2] } else { vec![1u64] } {
            let cfg = json!({"role": "publisher", "state_at_cut": "blocked by back-pressure, a frame half-written", "caller_flushes_before_sending_again": bp_id % 3 != 0, "backoff": "constant 40 ms", "max_attempts": 5});
            let r = match tokio::time::timeout(Duration::from_secs(200), publisher_recovers_under_backpressure(server.addr, &certs.0, bp_id)).await {
                Ok(r) => r,
                Err(_) => Err(V("INCONCLUSIVE".into(), "watchdog: back-pressure scenario did not finish in 200 s".into())),
            };
            out.push(("recovery/publisher-under-back-pressure".to_string(), cfg, r));
        }
        // publishers that publish in bursts larger than the writer's buffer
        for (k, use_send_all) in [false, true].into_iter().enumerate() {
            let bo = BackoffStrategy::constant().with_max_attempts(5).with_step(Duration::from_millis(40));
            let cfg = json!({"role": "publisher", "style": if use_send_all { "send_all of 6 × 4 KiB" } else { "6 × feed(4 KiB) + flush()" }, "backoff": "constant 40 ms", "max_attempts": 5, "outages": 2});
            let r = match tokio::time::timeout(Duration::from_secs(400), burst_publisher_recovers(server.addr, &certs.0, bo, 2, 90 + k as u64, use_send_all)).await {
                Ok(r) => r,
                Err(_) => Err(V("INCONCLUSIVE".into(), "watchdog: burst publisher scenario did not finish in 400 s".into())),
            };
            out.push(("recovery/publisher-bursts".to_string(), cfg, r));
        }
        // publisher whose caller wraps each send() in a timeout shorter than the backoff delay
        {
            let bo = BackoffStrategy::constant().with_max_attempts(3).with_step(Duration::from_millis(400));
            let cfg = json!({"role": "publisher", "backoff": "constant 400 ms", "max_attempts": 3, "caller_timeout_per_send_ms": 60, "outages": 2});
            let r = match tokio::time::timeout(Duration::from_secs(400), publisher_recovers_t(server.addr, &certs.0, bo, 2, 1, 78, Some(60))).await {
                Ok(r) => r,
                Err(_) => Err(V("INCONCLUSIVE".into(), "watchdog: scenario did not finish in 400 s".into())),
            };
            out.push(("recovery/publisher-impatient-caller".to_string(), cfg, r));
        }
        // publisher with batching + compression across outages
        for k in 0..(if thorough { 4u64 } else { 2 }) {
            let bo = backoff(k as usize, 3, 10);
            let outages = if thorough { 6 } else { 3 };
            let cfg = json!({"role": "publisher", "batching": {"size": 4, "interval_ms": 15}, "compression": if k % 2 == 0 { "zstd" } else { "lz4" }, "outages": outages});
            let r = match tokio::time::timeout(Duration::from_secs(400), batched_publisher_recovers(server.addr, &certs.0, bo, outages, k)).await {
                Ok(r) => r,
                Err(_) => Err(V("INCONCLUSIVE".into(), "watchdog: batched publisher scenario did not finish in 400 s".into())),
            };
            out.push(("recovery/publisher-batched".to_string(), cfg, r));
        }
        // requestor clones: concurrent calls on clones that each recovered their own stream
        for (k, (n_clones, outages)) in [(3usize, 2usize), (5, 3)].into_iter().enumerate() {
            let bo = backoff(k, 3, 10);
            let burst = if thorough { 40 } else { 8 };
            let cfg = json!({"role": "requestor", "clones": n_clones + 1, "outages": outages, "concurrent_calls_per_clone_after_each_outage": burst});
            let r = match tokio::time::timeout(Duration::from_secs(400), requestor_clones_after_recovery(server.addr, &certs.0, bo, outages, n_clones, burst, k as u64)).await {
                Err(_) => Err(V("INCONCLUSIVE".into(), "watchdog: clones scenario did not finish in 400 s".into())),
                Ok(Err(e)) if e.starts_with("VIOLATION hang") => Err(V("requestor/hangs-after-recovery".into(), e)),
                Ok(Err(e)) => Err(V("INCONCLUSIVE".into(), e)),
                Ok(Ok((ok, wrong, failed))) => {
                    if let Some(w) = wrong.first() {
                        Err(V("requestor/clone-got-foreign-reply-after-recovery".into(), format!("{} of {} calls on recovered clones returned another call's reply, e.g. {}", wrong.len(), ok as usize + wrong.len() + failed.len(), w)))
                    } else if !failed.is_empty() {
                        Err(V("requestor/clones-not-working-after-recovery".into(), format!("{} of {} calls on recovered clones failed although the replier answers immediately, e.g. {}", failed.len(), ok as usize + failed.len(), failed[0])))
                    } else {
                        Ok(ok)
                    }
                }
            };
            out.push(("recovery/requestor-clones".to_string(), cfg, r));
        }
        server.stop();
        // exhaustion + unrecoverable, every role
        for role in 0..4usize {
            for (attempts, unrec) in [(3u32, false), (1, false), (2, true)] {

                let role_name = ["publisher", "subscriber", "requestor", "replier"][role];
                let cfg = json!({"role": role_name, "max_attempts": attempts, "fault": if unrec { "re-registration refused with a non-retryable error code" } else { "every reconnect attempt fails in the TLS handshake (foreign CA)" }});
                let r = match tokio::time::timeout(Duration::from_secs(120), exhaustion(role, &certs.0, &certs.1, attempts, role as u64 * 10 + attempts as u64, unrec)).await {
                    Ok(r) => r,
                    Err(_) => Err(V("INCONCLUSIVE".into(), "watchdog: exhaustion scenario did not finish in 120 s".into())),
                };
                out.push((format!("{}/{}", if unrec { "unrecoverable" } else { "exhaustion" }, role_name), cfg, r));
            }
        }
        // silent network loss detected through the idle timeout (thorough tier: ≈ 15–30 s per role)
        if thorough {
            for role in 0..4usize {
                let role_name = ["publisher", "subscriber", "requestor", "replier"][role];
                let cfg = json!({"role": role_name, "fault": "UDP relay black-holes the existing connection in both directions; loss is detected by QUIC's idle timeout"});
                let r = match tokio::time::timeout(Duration::from_secs(200), blackhole_outage(role, &certs.0, role as u64)).await {
                    Ok(r) => r,
                    Err(_) => Err(V("INCONCLUSIVE".into(), "watchdog: black-hole scenario did not finish in 200 s".into())),
                };
                out.push((format!("silent-loss/{}", role_name), cfg, r));
            }
        }
        // re-registration with the same settings after a remote-initiated close (protocol-level fake server)
        for role in 0..4usize {
            let role_name = ["publisher", "subscriber", "requestor", "replier"][role];
            let outages = if thorough { 6 } else { 2 };
            let cfg = json!({"role": role_name, "fault": "the server closes the connection from its side", "outages": outages, "checked": "every re-registration frame equals the original one"});
            let r = match tokio::time::timeout(Duration::from_secs(300), reregistration(role, &certs.0, outages)).await {
                Ok(r) => r,
                Err(_) => Err(V("INCONCLUSIVE".into(), "watchdog: re-registration scenario did not finish in 300 s".into())),
            };
            out.push((format!("same-settings/{}", role_name), cfg, r));
        }
        out
    });
    for (i, (name, cfg, r)) in results.into_iter().enumerate() {
        rep.evaluations += 1;
        match r {
            Ok(n) => {
                cycles += n;
                rep.distinct.insert(crate::common::mix(i as u64, crate::common::fnv(name.as_bytes())));
                rep.sample(json!({"scenario": name, "configuration": cfg, "verdict": "recovered / reported as required", "observed_units": n}));
                rep.count(&format!("scenarios/{}", name), 1);
            }
            Err(V(sig, detail)) if sig == "INCONCLUSIVE" => rep.inconclusive(&format!("{}: {}", name, detail)),
            Err(V(sig, detail)) => {
                let replay = write_replay("C12", &sig, i as u64, json!({"property": "C12", "scenario": name, "configuration": cfg, "detail": detail}));
                rep.violation(Violation { signature: format!("C12/keep-alive/{}", sig), detail: format!("{} — {}", detail, cfg), replay });
            }
        }
    }
    for p in repo_panics_since(mark) {
        rep.violation(Violation { signature: format!("C12/keep-alive/panic/{}", crate::routersim::exec::normalise_location(&p.location)), detail: format!("panic in thread {} at {}: {}", p.thread, p.location, p.message), replay: String::new() });
    }
    rep.count("items_or_calls_observed_after_recoveries", cycles);
    rep.rule = "one evaluation = one fault scenario: (role ∈ publisher/subscriber/requestor/replier) × backoff configuration × number of successive outages (more than max_attempts) × cut point, the connection being closed through the verif hook at barriers; plus, per role, exhaustion (a UDP relay re-targets new connections to a server with a foreign CA: the stream must report too-many-retries after exactly max_attempts attempts) and an unrecoverable refusal of the re-registration (reported after one attempt); distinct = distinct scenario".into();
    rep.assumptions.push("cuts are placed at barriers (everything sent so far was observed at the far end): closing a quinn connection discards data still buffered, so items in flight at a cut are `may be lost`, never `must arrive`".into());
}

//! C06 (L3 part) — hostile payloads sent by raw peers *through the real server* to a real
//! `Subscriber`, `Requestor` and `Replier`. Runs in a child process of this binary (with the counting
//! allocator refusing absurd requests) so that an abort is observable by the parent.

use super::c03::{compression_pair, Rec};
use super::*;
use crate::common::alloc;
use crate::common::{hex_trunc, write_replay, StageReport, Violation};
use crate::wiregen::c06::gen_input;
use bytes::Bytes;
use selium::prelude::*;
use selium::std::codecs::{BincodeCodec, StringCodec};
use selium_protocol::{MessagePayload, PublisherPayload, ReplierPayload, RequestorPayload, TopicName};
use serde_json::{json, Value};
use std::collections::HashMap;

fn reg(kind: usize, topic: &str) -> Frame {
    let t = TopicName::try_from(topic).unwrap();
    match kind {
        0 => Frame::RegisterPublisher(PublisherPayload { topic: t, retention_policy: 0, operations: vec![] }),
        2 => Frame::RegisterReplier(ReplierPayload { topic: t }),
        _ => Frame::RegisterRequestor(RequestorPayload { topic: t }),
    }
}

async fn child_async(seed: u64, n: u64) -> std::result::Result<Value, String> {
    let certs = gen_certs().map_err(|e| e.to_string())?;
    let server = start_server(&certs).map_err(|e| e.to_string())?;
    let addr = server.addr;
    let mark = panic_mark();
    let mut stats: HashMap<&'static str, u64> = HashMap::new();
    // ---------------- subscribers fed by a raw hostile publisher ----------------------------------
    let lc = lib_client(&addr.to_string(), &certs, None).await.map_err(|e| e.to_string())?;
    let (_, zd) = compression_pair("zstd");
    let mut sub_a = lc.subscriber("/c06l3/zstd-strings").with_decoder(StringCodec).with_decompression(zd).open().await.map_err(|e| e.to_string())?;
    let mut sub_b = lc.subscriber("/c06l3/bincode-recs").with_decoder(BincodeCodec::<Rec>::default()).open().await.map_err(|e| e.to_string())?;
    let rc = raw_connect(addr, &certs).await.map_err(|e| e.to_string())?;
    let (mut pa, r) = rc.open(reg(0, "/c06l3/zstd-strings"), Duration::from_secs(8)).await.map_err(|e| e.to_string())?;
    if r != Some(Frame::Ok) {
        return Err(format!("publisher registration answered {:?}", r));
    }
    let (mut pb, r) = rc.open(reg(0, "/c06l3/bincode-recs"), Duration::from_secs(8)).await.map_err(|e| e.to_string())?;
    if r != Some(Frame::Ok) {
        return Err(format!("publisher registration answered {:?}", r));
    }
    let reader_a = tokio::spawn(async move {
        let (mut ok, mut err) = (0u64, 0u64);
        loop {
            match tokio::time::timeout(Duration::from_secs(6), sub_a.next()).await {
                Ok(Some(Ok(s))) => {
                    if s == "THE-END" {
                        break;
                    }
                    ok += 1
                }
                Ok(Some(Err(_))) => err += 1,
                Ok(None) | Err(_) => break,
            }
        }
        (ok, err)
    });
    let reader_b = tokio::spawn(async move {
        let (mut ok, mut err) = (0u64, 0u64);
        loop {
            match tokio::time::timeout(Duration::from_secs(6), sub_b.next()).await {
                Ok(Some(Ok(r))) => {
                    if r.text == "THE-END" {
                        break;
                    }
                    ok += 1
                }
                Ok(Some(Err(_))) => err += 1,
                Ok(None) | Err(_) => break,
            }
        }
        (ok, err)
    });
    tokio::time::sleep(Duration::from_millis(300)).await;
    for i in 0..n {
        // subject 14 = zstd → unbatch → String; subject 15 = unbatch → bincode; plus raw decompressor / codec inputs
        let idx_a = i * 16 + 14;
        let idx_b = i * 16 + 15;
        let (_, in_a, _) = gen_input(seed, idx_a);
        let (_, in_b, _) = gen_input(seed, idx_b);
        let (fa, fb) = if i % 2 == 0 {
            (Frame::BatchMessage(Bytes::from(in_a)), Frame::BatchMessage(Bytes::from(in_b)))
        } else {
            (Frame::Message(MessagePayload { headers: None, message: Bytes::from(in_a) }), Frame::Message(MessagePayload { headers: None, message: Bytes::from(in_b) }))
        };
        pa.send(fa).await.map_err(|e| format!("hostile publish: {e}"))?;
        pb.send(fb).await.map_err(|e| format!("hostile publish: {e}"))?;
        *stats.entry("hostile_frames_to_subscribers").or_insert(0) += 2;
    }
    // a long run of well-formed but *empty* batches (count = 0), delivered back to back: the subscriber has to
    // work through them without unbounded recursion (stack overflow = abort)
    {
        let empty = selium_protocol::utils::encode_message_batch(vec![]);
        let n_empty = 150_000u64;
        for _ in 0..n_empty {
            pb.feed(Frame::BatchMessage(empty.clone())).await.map_err(|e| format!("empty batch publish: {e}"))?;
        }
        pb.flush().await.map_err(|e| format!("flush: {e}"))?;
        *stats.entry("empty_batches_to_subscriber").or_insert(0) += n_empty;
    }
    // the end markers, correctly encoded
    let (zc, _) = compression_pair("zstd");
    use selium::std::traits::codec::MessageEncoder;
    use selium::std::traits::compression::Compress;
    let end_a = zc.compress(StringCodec.encode("THE-END".to_string()).unwrap()).unwrap();
    let end_b = BincodeCodec::<Rec>::default().encode(Rec { id: 0, text: "THE-END".into(), blob: vec![] }).unwrap();
    for _ in 0..3 {
        let _ = pa.send(Frame::Message(MessagePayload { headers: None, message: end_a.clone() })).await;
        let _ = pb.send(Frame::Message(MessagePayload { headers: None, message: end_b.clone() })).await;
    }
    let (a_ok, a_err) = reader_a.await.map_err(|e| format!("subscriber task died: {e}"))?;
    let (b_ok, b_err) = reader_b.await.map_err(|e| format!("subscriber task died: {e}"))?;
    stats.insert("subscriber_zstd_string/yielded_ok", a_ok);
    stats.insert("subscriber_zstd_string/yielded_err", a_err);
    stats.insert("subscriber_bincode/yielded_ok", b_ok);
    stats.insert("subscriber_bincode/yielded_err", b_err);
    // ---------------- requestor fed by a raw hostile replier ---------------------------------------
    let topic_r = "/c06l3/hostile-replier";
    let (mut rep, r) = rc.open(reg(2, topic_r), Duration::from_secs(8)).await.map_err(|e| e.to_string())?;
    if r != Some(Frame::Ok) {
        return Err(format!("replier registration answered {:?}", r));
    }
    let hostile_replier = tokio::spawn(async move {
        let mut k = 0u64;
        while let Some(Ok(f)) = rep.next().await {
            if let Frame::Message(m) = f {
                k += 1;
                let (_, body, _) = gen_input(seed ^ 0x5eed, k * 16 + 5); // bincode Sample inputs
                let _ = rep.send(Frame::Message(MessagePayload { headers: m.headers, message: Bytes::from(body) })).await;
            }
        }
    });
    let mut rq = lc
        .requestor(topic_r)
        .with_request_encoder(StringCodec)
        .with_reply_decoder(BincodeCodec::<Rec>::default())
        .with_request_timeout(1000u64)
        .map_err(|e| e.to_string())?
        .open()
        .await
        .map_err(|e| e.to_string())?;
    let (mut q_ok, mut q_err) = (0u64, 0u64);
    for i in 0..n.min(300) {
        match tokio::time::timeout(Duration::from_secs(10), rq.request(format!("q{}", i))).await {
            Ok(Ok(_)) => q_ok += 1,
            Ok(Err(_)) => q_err += 1,
            Err(_) => return Err("request() against a hostile replier did not return within 10 s".into()),
        }
    }
    hostile_replier.abort();
    stats.insert("requestor/calls_ok", q_ok);
    stats.insert("requestor/calls_err", q_err);
    // ---------------- replier fed by a raw hostile requestor ---------------------------------------
    let topic_q = "/c06l3/hostile-requestor";
    let lc2 = lib_client(&addr.to_string(), &certs, None).await.map_err(|e| e.to_string())?;
    let mut rounds = 0u64;
    let mut listen_errs = 0u64;
    for round in 0..n.min(40) {
        let mut replier = lc2
            .replier(topic_q)
            .with_request_decoder(BincodeCodec::<Rec>::default())
            .with_reply_encoder(StringCodec)
            .with_handler(|r: Rec| async move { Ok::<String, std::convert::Infallible>(r.text) })
            .open()
            .await
            .map_err(|e| format!("open replier (round {}): {}", round, e))?;
        let listen = tokio::spawn(async move { replier.listen().await });
        let (mut hq, r) = rc.open(reg(3, topic_q), Duration::from_secs(8)).await.map_err(|e| e.to_string())?;
        if r != Some(Frame::Ok) {
            return Err(format!("hostile requestor registration answered {:?}", r));
        }
        let (_, body, _) = gen_input(seed ^ 0xabcd, round * 16 + 5);
        let mut h = HashMap::new();
        h.insert("req_id".to_string(), "1".to_string());
        let _ = hq.send(Frame::Message(MessagePayload { headers: Some(h), message: Bytes::from(body) })).await;
        // the replier either answers or stops with an error; it must not panic
        match tokio::time::timeout(Duration::from_secs(3), listen).await {
            Ok(Ok(Err(_))) => listen_errs += 1,
            Ok(Ok(Ok(()))) => {}
            Ok(Err(e)) if e.is_panic() => {}
            Ok(Err(_)) => {}
            Err(_) => {} // still listening: it answered or ignored the request
        }
        rounds += 1;
        drop(hq);
        // wait until the topic's replier slot is free again
        tokio::time::sleep(Duration::from_millis(120)).await;
    }
    stats.insert("replier/rounds", rounds);
    stats.insert("replier/listen_returned_err", listen_errs);
    // ---------------- consumers with every decompressor, fed degenerate payloads -------------------------
    // (empty, one byte, the valid compressed form of nothing): some decompressors accept an empty input, others
    // reject it; either way the consumer must yield a value or an error
    {
        use selium::std::traits::codec::MessageEncoder;
        use selium::std::traits::compression::Compress;
        let mut degenerate_frames = 0u64;
        for algo in ["gzip", "zlib", "lz4", "brotli-generic", "zstd"] {
            let topic = format!("/c06l3/degenerate-{}", algo.replace("-generic", ""));
            let (cmp, dec) = compression_pair(algo);
            let mut sub = lc.subscriber(&topic).with_decoder(StringCodec).with_decompression(dec.clone()).open().await.map_err(|e| e.to_string())?;
            let reader = tokio::spawn(async move {
                let (mut ok, mut err) = (0u64, 0u64);
                loop {
                    match tokio::time::timeout(Duration::from_secs(4), sub.next()).await {
                        Ok(Some(Ok(s))) => {
                            if s == "THE-END" {
                                break;
                            }
                            ok += 1
                        }
                        Ok(Some(Err(_))) => err += 1,
                        Ok(None) | Err(_) => break,
                    }
                }
                (ok, err)
            });
            let (mut p, r) = rc.open(reg(0, &topic), Duration::from_secs(8)).await.map_err(|e| e.to_string())?;
            if r != Some(Frame::Ok) {
                return Err(format!("publisher registration answered {:?}", r));
            }
            tokio::time::sleep(Duration::from_millis(150)).await;
            let of_nothing = cmp.compress(Bytes::new()).map(|b| b.to_vec()).unwrap_or_default();
            let of_empty_batch = cmp.compress(selium_protocol::utils::encode_message_batch(vec![])).map(|b| b.to_vec()).unwrap_or_default();
            let payloads: Vec<Vec<u8>> = vec![vec![], vec![0], vec![0x1f], vec![0xff; 3], of_nothing.clone(), of_empty_batch, of_nothing[..of_nothing.len().min(3)].to_vec()];
            for pl in payloads {
                for batch in [false, true] {
                    let f = if batch { Frame::BatchMessage(Bytes::from(pl.clone())) } else { Frame::Message(MessagePayload { headers: None, message: Bytes::from(pl.clone()) }) };
                    p.send(f).await.map_err(|e| format!("degenerate publish: {e}"))?;
                    degenerate_frames += 1;
                }
            }
            let end = cmp.compress(StringCodec.encode("THE-END".to_string()).unwrap()).unwrap();
            for _ in 0..3 {
                let _ = p.send(Frame::Message(MessagePayload { headers: None, message: end.clone() })).await;
            }
            // a consumer that panicked shows in the panic log (and in the JoinError); nothing else is judged here
            let _ = reader.await;
        }
        stats.insert("degenerate_payloads_to_subscribers(5 decompressors)", degenerate_frames);
        // requestor with lz4 / zlib reply decompression fed empty and one-byte replies by a raw replier
        for algo in ["lz4", "zlib"] {
            let topic = format!("/c06l3/degenerate-rr-{}", algo);
            let (cmp, dec) = compression_pair(algo);
            let (mut hrep, r) = rc.open(reg(2, &topic), Duration::from_secs(8)).await.map_err(|e| e.to_string())?;
            if r != Some(Frame::Ok) {
                return Err(format!("replier registration answered {:?}", r));
            }
            let bad = tokio::spawn(async move {
                let mut k = 0usize;
                while let Some(Ok(f)) = hrep.next().await {
                    if let Frame::Message(m) = f {
                        let body: Vec<u8> = [vec![], vec![0u8], vec![0x78, 0x9c]][k % 3].clone();
                        k += 1;
                        if hrep.send(Frame::Message(MessagePayload { headers: m.headers, message: Bytes::from(body) })).await.is_err() {
                            break;
                        }
                    }
                }
            });
            if let Ok(b) = lc.requestor(&topic).with_request_encoder(StringCodec).with_request_compression(cmp.clone()).with_reply_decoder(StringCodec).with_reply_decompression(dec.clone()).with_request_timeout(800u64) {
                if let Ok(mut rq) = b.open().await {
                    let call = tokio::spawn(async move {
                        for i in 0..6 {
                            let _ = tokio::time::timeout(Duration::from_secs(3), rq.request(format!("q{}", i))).await;
                        }
                    });
                    let _ = call.await;
                }
            }
            bad.abort();
        }
    }
    // ---------------- streams finished in the middle of a frame ----------------------------------------
    let (cuts, cut_findings) = super::wirepeers::c06_stream_cuts(addr, &certs).await?;
    stats.insert("stream_cuts", cuts);
    let cut_findings: Vec<Value> = cut_findings.into_iter().map(|(s, d)| json!({"sig": s, "detail": d})).collect();
    // … and the same towards the consuming clients: a hand-written server finishes their streams mid-frame
    let mut notes: Vec<String> = vec![];
    match tokio::time::timeout(Duration::from_secs(90), super::wirepeers::c06_client_stream_cuts(&certs)).await {
        Ok(Ok(n)) => {
            stats.insert("client_streams_cut_mid_frame", n);
        }
        Ok(Err(e)) => notes.push(format!("client-side stream cuts: {}", e)),
        Err(_) => notes.push("watchdog: client-side stream cuts did not finish in 90 s".into()),
    }
    server.stop();
    let panics: Vec<Value> = repo_panics_since(mark).into_iter().map(|p| json!({"thread": p.thread, "location": p.location, "message": p.message})).collect();
    Ok(json!({"stats": stats, "panics": panics, "findings": cut_findings, "notes": notes}))
}

/// child mode
pub fn child_main(seed: u64, n: u64, out: &str) {
    alloc::REFUSE_ABOVE.store(1 << 31, std::sync::atomic::Ordering::Relaxed);
    alloc::TRACK.store(true, std::sync::atomic::Ordering::Relaxed);
    install_panic_log();
    let rt = runtime(4);
    let r = rt.block_on(async { tokio::time::timeout(Duration::from_secs(300), child_async(seed, n)).await });
    alloc::TRACK.store(false, std::sync::atomic::Ordering::Relaxed);
    let v = match r {
        Ok(Ok(v)) => v,
        Ok(Err(e)) => json!({"inconclusive": e, "panics": repo_panics_since(0).into_iter().map(|p| json!({"thread": p.thread, "location": p.location, "message": p.message})).collect::<Vec<_>>()}),
        Err(_) => json!({"inconclusive": "watchdog: L3 decoder scenario did not finish in 300 s"}),
    };
    std::fs::write(out, serde_json::to_vec(&v).unwrap()).unwrap();
    cleanup_scratch();
    std::process::exit(0);
}

pub fn run(rep: &mut StageReport, tier: &str, seed: u64, exe: &str) {
    let n: u64 = if tier == "thorough" { 6000 } else { 400 };
    let out = scratch_dir().join("c06-l3-child.json");
    let _ = std::fs::remove_file(&out);
    let output = std::process::Command::new(exe)
        .args(["--c06-l3-child", "--seed", &seed.to_string(), "--n", &n.to_string(), "--child-out", &out.to_string_lossy()])
        .stdout(std::process::Stdio::null())
        .stderr(std::process::Stdio::piped())
        .output();
    let output = match output {
        Ok(o) => o,
        Err(e) => {
            rep.inconclusive(&format!("spawn: {e}"));
            return;
        }
    };
    let stderr = String::from_utf8_lossy(&output.stderr).to_string();
    let report: Option<Value> = std::fs::read(&out).ok().and_then(|b| serde_json::from_slice(&b).ok());
    let _ = std::fs::remove_file(&out);
    rep.evaluations += 2 * n + n.min(300) + n.min(40) + 40;
    match report {
        None => {
            use std::os::unix::process::ExitStatusExt;
            let refused = stderr.lines().find(|l| l.starts_with("ALLOC-REFUSED")).map(|s| s.to_string());
            let detail = format!(
                "the process hosting a real Subscriber/Requestor/Replier died while consuming hostile payloads routed through the server: {} {}",
                match output.status.signal() {
                    Some(s) => format!("killed by signal {}", s),
                    None => format!("exit status {:?}", output.status.code()),
                },
                refused.clone().map(|r| format!("({})", r)).unwrap_or_default()
            );
            let overflow = stderr.contains("has overflowed its stack");
            let detail = if overflow { format!("{} — stack overflow: {}", detail, stderr.lines().find(|l| l.contains("overflowed")).unwrap_or("")) } else { detail };
            let sig = if refused.is_some() {
                "C06/l3/consumer-allocation-abort"
            } else if overflow {
                "C06/l3/consumer-stack-overflow"
            } else {
                "C06/l3/consumer-abort"
            };
            let replay = write_replay("C06", "l3-abort", seed, json!({"property": "C06", "detail": detail, "stderr": hex_trunc(stderr.as_bytes(), 0)}));
            rep.violation(Violation { signature: sig.into(), detail, replay });
        }
        Some(v) => {
            if let Some(why) = v.get("inconclusive").and_then(|x| x.as_str()) {
                // a consumer that panicked may be why the scenario could not go on: panics are findings first
                for p in v.get("panics").and_then(|p| p.as_array()).cloned().unwrap_or_default() {
                    let loc = p["location"].as_str().unwrap_or("");
                    let detail = format!("a consuming client panicked at {} on a hostile payload routed through the server: {}", loc, p["message"].as_str().unwrap_or(""));
                    rep.violation(Violation { signature: format!("C06/l3/consumer-panic/{}", crate::routersim::exec::normalise_location(loc)), detail, replay: String::new() });
                }
                rep.inconclusive(why);
                return;
            }
            if let Some(st) = v.get("stats").and_then(|s| s.as_object()) {
                for (k, n) in st {
                    rep.count(&format!("l3/{}", k), n.as_u64().unwrap_or(0));
                }
            }
            let panics = v.get("panics").and_then(|p| p.as_array()).cloned().unwrap_or_default();
            for p in &panics {
                let loc = p["location"].as_str().unwrap_or("");
                let detail = format!("a consuming client panicked at {} on a hostile payload routed through the server: {}", loc, p["message"].as_str().unwrap_or(""));
                rep.violation(Violation { signature: format!("C06/l3/consumer-panic/{}", crate::routersim::exec::normalise_location(loc)), detail, replay: String::new() });
            }
            for n in v.get("notes").and_then(|p| p.as_array()).cloned().unwrap_or_default() {
                rep.inconclusive(n.as_str().unwrap_or("note"));
            }
            let extra = v.get("findings").and_then(|p| p.as_array()).cloned().unwrap_or_default();
            for f in &extra {
                let detail = f["detail"].as_str().unwrap_or("").to_string();
                let sig = f["sig"].as_str().unwrap_or("finding").to_string();
                let replay = write_replay("C06", &format!("l3-{}", sig.replace('/', "_")), seed, json!({"property": "C06", "detail": detail}));
                rep.violation(Violation { signature: format!("C06/l3/{}", sig), detail, replay });
            }
            if panics.is_empty() && extra.is_empty() {
                for i in 0..(2 * n + n.min(300) + n.min(40)) {
                    rep.distinct.insert(crate::common::mix(seed, 0xC06_0000 + i));
                }
                rep.sample(json!({"l3": "hostile Message/BatchMessage frames from a raw publisher to real subscribers (zstd+String, bincode), hostile replies to a real requestor, hostile requests to a real replier, all through the in-process server", "observed": v.get("stats")}));
            }
        }
    }
    rep.rule = "L3: generated hostile payloads (same generators as the L2/L4 stage) sent by raw peers through the real server to a real Subscriber (zstd→unbatch→String and unbatch→bincode), a real Requestor (hostile replies) and a real Replier (hostile requests) hosted in a child process with the counting allocator; monitors: panic log, child exit status".into();
}

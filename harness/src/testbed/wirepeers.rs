//! Scenarios played by independent wire peers (wire.rs) against the real server: things the repository's own codec
//! and client library never do — frames of exactly the limit size, frames pipelined behind the registration,
//! streams finished in the middle of a frame.

use super::wire::*;
use super::*;
use crate::common::fnv;

type Findings = Vec<(String, String)>;

fn body_for(seq: usize, len: usize, last: bool) -> Vec<u8> {
    let mut b = format!("seq={}|{}|", seq, if last { "last" } else { "more" }).into_bytes();
    if b.len() < len {
        b.resize(len, (seq as u8).wrapping_mul(31).wrapping_add(7));
    }
    b
}

/// fingerprint of a message as a subscriber must see it: headers (sorted) and body
fn msg_sig(headers: Option<&[(String, String)]>, body: &[u8]) -> u64 {
    let mut h: Option<Vec<(String, String)>> = headers.map(|x| x.to_vec());
    if let Some(v) = h.as_mut() {
        v.sort();
    }
    let mut bytes = format!("{:?}|", h).into_bytes();
    bytes.extend_from_slice(body);
    fnv(&bytes)
}

fn seq_of(body: &[u8]) -> Option<(usize, bool)> {
    let head = String::from_utf8_lossy(&body[..body.len().min(40)]).to_string();
    let mut it = head.split('|');
    let s = it.next()?.strip_prefix("seq=")?.parse().ok()?;
    let last = it.next()? == "last";
    Some((s, last))
}

/// reads a subscriber until the item marked "last" (or trouble); returns (seq, len, hash) per message
async fn drain_sub(mut s: WireStream, wait: Duration) -> (Vec<(usize, usize, u64)>, String) {
    let mut got = vec![];
    loop {
        match s.next(wait).await {
            Next::Frame(WFrame::Message { headers, body }) => {
                if body.starts_with(b"sentinel") {
                    continue;
                }
                match seq_of(&body) {
                    Some((q, last)) => {
                        got.push((q, body.len(), msg_sig(headers.as_deref(), &body)));
                        if last {
                            return (got, "complete".into());
                        }
                    }
                    None => return (got, format!("alien message of {} bytes", body.len())),
                }
            }
            Next::Frame(other) => return (got, format!("unexpected frame {:?}", other)),
            Next::Eof => return (got, "stream ended by the server".into()),
            Next::Reset(e) => return (got, format!("stream reset by the server: {}", e)),
            Next::Timeout => return (got, format!("nothing more within {:?}", wait)),
            Next::Garbage(e) => return (got, format!("undecodable bytes from the server: {}", e)),
        }
    }
}

/// C01 at the frame-size boundary: an independent publisher sends messages whose encoded payload is at, just below
/// and far below the 1 MiB limit (all of which the server's decoder accepts); every subscriber must receive all of
/// them unchanged, in order.
pub async fn c01_boundary(addr: SocketAddr, certs: &Certs, id: u64) -> std::result::Result<(u64, Findings), String> {
    let topic = format!("/l3c01w{}/limit-sized", id);
    let w = Duration::from_secs(10);
    let mut subs = vec![];
    let mut keep = vec![];
    for _ in 0..2 {
        let c = raw_connect(addr, certs).await.map_err(|e| e.to_string())?;
        let s = WireStream::register(&c.conn, T_REG_SUB, &topic, w).await?;
        subs.push(s);
        keep.push(c);
    }
    let cp = raw_connect(addr, certs).await.map_err(|e| e.to_string())?;
    let mut p = WireStream::register(&cp.conn, T_REG_PUB, &topic, w).await?;
    // establish: sentinels until both subscribers have seen one
    for s in subs.iter_mut() {
        let mut ok = false;
        for _ in 0..60 {
            p.write(&enc_message(None, b"sentinel")).await?;
            if let Next::Frame(WFrame::Message { body, .. }) = s.next(Duration::from_millis(100)).await {
                if body.starts_with(b"sentinel") {
                    ok = true;
                    break;
                }
            }
        }
        if !ok {
            return Err("precondition not reached: a subscriber never saw a sentinel".into());
        }
    }
    let big = MAX_PLAIN_BODY;
    let sizes = [10usize, big, 64, big - 1, big - 4, big - 8, big - 9, big - 10, big - 17, 70_000, big - 2, big, 10];
    let mut sent = vec![];
    let readers: Vec<_> = subs.into_iter().map(|s| tokio::spawn(drain_sub(s, Duration::from_secs(25)))).collect();
    for (i, len) in sizes.iter().enumerate() {
        let b = body_for(i, *len, false);
        sent.push((i, b.len(), msg_sig(None, &b)));
        p.write(&enc_message(None, &b)).await.map_err(|e| format!("publisher write of a {}-byte message failed: {}", len, e))?;
    }
    // with headers: payload exactly at the limit and one below (1 + 8 + (8+1+8+1) + 8 + body)
    for (k, slack) in [(sizes.len(), 0usize), (sizes.len() + 1, 1)] {
        let hdr = vec![("k".to_string(), "v".to_string())];
        let b = body_for(k, LIMIT - (1 + 8 + 18 + 8) - slack, false);
        sent.push((k, b.len(), msg_sig(Some(&hdr), &b)));
        p.write(&enc_message(Some(&hdr), &b)).await?;
    }
    let lastb = body_for(sizes.len() + 2, 12, true);
    sent.push((sizes.len() + 2, lastb.len(), msg_sig(None, &lastb)));
    p.write(&enc_message(None, &lastb)).await?;
    let mut findings = vec![];
    let mut deliveries = 0u64;
    for (k, r) in readers.into_iter().enumerate() {
        let (got, how) = r.await.map_err(|e| e.to_string())?;
        deliveries += got.len() as u64;
        if got != sent {
            let firstdiff = got.iter().zip(sent.iter()).position(|(a, b)| a != b).unwrap_or(got.len().min(sent.len()));
            findings.push((
                "limit-sized/undelivered".to_string(),
                format!(
                    "subscriber {} received {} of {} messages ({}); first difference at item {}: sent (seq,len)={:?}, got {:?}. Sizes sent: {:?}",
                    k,
                    got.len(),
                    sent.len(),
                    how,
                    firstdiff,
                    sent.get(firstdiff).map(|x| (x.0, x.1)),
                    got.get(firstdiff).map(|x| (x.0, x.1)),
                    sent.iter().map(|x| x.1).collect::<Vec<_>>()
                ),
            ));
        }
    }
    drop(keep);
    Ok((deliveries, findings))
}

async fn echo_replier_wire(conn: &quinn::Connection, topic: &str) -> std::result::Result<tokio::task::JoinHandle<()>, String> {
    let mut r = WireStream::register(conn, T_REG_REP, topic, Duration::from_secs(10)).await?;
    Ok(tokio::spawn(async move {
        loop {
            match r.next(Duration::from_secs(60)).await {
                Next::Frame(WFrame::Message { headers, body }) => {
                    let mut b = b"re:".to_vec();
                    b.extend_from_slice(&body);
                    if r.write(&enc_message(headers.as_deref(), &b)).await.is_err() {
                        break;
                    }
                }
                Next::Frame(_) => {}
                _ => break,
            }
        }
    }))
}

/// C11: a peer may write its first frames right behind its registration, without waiting for the Ok. A stream that
/// is answered Ok is served in its role — including what it already sent.
pub async fn c11_pipelined(addr: SocketAddr, certs: &Certs, id: u64) -> std::result::Result<(u64, Findings), String> {
    let w = Duration::from_secs(10);
    let mut findings = vec![];
    let mut evals = 0u64;
    let c = raw_connect(addr, certs).await.map_err(|e| e.to_string())?;
    let c2 = raw_connect(addr, certs).await.map_err(|e| e.to_string())?;
    // ---- publisher ----------------------------------------------------------------------------------
    for (case, first_len, chunks) in [("small first message", 10usize, 1usize), ("64 KiB first message", 65_536, 1), ("three small messages", 20, 3), ("200 KiB first message", 200_000, 1)] {
        evals += 1;
        let topic = format!("/l3c11p{}/pipelined-{}", id, evals);
        let mut sub = WireStream::register(&c2.conn, T_REG_SUB, &topic, w).await?;
        // make sure the subscriber is routed before the pipelined publisher arrives: a helper publisher's sentinel
        let mut helper = WireStream::register(&c2.conn, T_REG_PUB, &topic, w).await?;
        let mut ok = false;
        for _ in 0..60 {
            helper.write(&enc_message(None, b"sentinel")).await?;
            if let Next::Frame(WFrame::Message { body, .. }) = sub.next(Duration::from_millis(100)).await {
                if body.starts_with(b"sentinel") {
                    ok = true;
                    break;
                }
            }
        }
        if !ok {
            return Err("precondition not reached: subscriber never saw the helper's sentinel".into());
        }
        let mut p = WireStream::open(&c.conn).await.map_err(|e| e.to_string())?;
        let mut bytes = enc_register(T_REG_PUB, &topic);
        let mut sent = vec![];
        for i in 0..chunks {
            let b = body_for(i, first_len, false);
            sent.push((i, b.len(), msg_sig(None, &b)));
            bytes.extend_from_slice(&enc_message(None, &b));
        }
        p.write(&bytes).await?;
        match p.next(w).await {
            Next::Frame(WFrame::Ok) => {}
            Next::Frame(WFrame::Error { code, .. }) => {
                // explicitly refused: truthful (the statement allows it), nothing more to check
                findings.retain(|_| true);
                let _ = code;
                continue;
            }
            other => {
                findings.push(("pipelined-publisher/no-verdict".into(), format!("{}: registration with frames pipelined behind it was answered {:?}", case, other)));
                continue;
            }
        }
        let b = body_for(chunks, 16, true);
        sent.push((chunks, b.len(), msg_sig(None, &b)));
        let wr = p.write(&enc_message(None, &b)).await;
        let (got, how) = drain_sub(sub, Duration::from_secs(5)).await;
        if got != sent {
            findings.push((
                "accepted-then-abandoned/pipelined-publisher".into(),
                format!(
                    "{}: the publisher was answered Ok, yet of the {} message(s) it sent ({} of them in the same write as its registration) the subscriber received {:?} ({}); later write: {:?}",
                    case,
                    sent.len(),
                    chunks,
                    got.iter().map(|x| (x.0, x.1)).collect::<Vec<_>>(),
                    how,
                    wr
                ),
            ));
        }
    }
    // ---- requestor -----------------------------------------------------------------------------------
    for (case, len) in [("small request", 12usize), ("64 KiB request", 65_536)] {
        evals += 1;
        let topic = format!("/l3c11p{}/pipelined-rr-{}", id, evals);
        let echo = echo_replier_wire(&c2.conn, &topic).await?;
        // replier bound and routed: a helper requestor's round trip
        let mut helper = WireStream::register(&c2.conn, T_REG_REQ, &topic, w).await?;
        let hdr = vec![("req_id".to_string(), "0".to_string())];
        let mut ok = false;
        for _ in 0..40 {
            helper.write(&enc_message(Some(&hdr), b"sentinel")).await?;
            if let Next::Frame(WFrame::Message { .. }) = helper.next(Duration::from_millis(150)).await {
                ok = true;
                break;
            }
        }
        if !ok {
            echo.abort();
            return Err("precondition not reached: helper requestor never got a reply".into());
        }
        let mut q = WireStream::open(&c.conn).await.map_err(|e| e.to_string())?;
        let body = body_for(0, len, false);
        let mut bytes = enc_register(T_REG_REQ, &topic);
        bytes.extend_from_slice(&enc_message(Some(&hdr), &body));
        q.write(&bytes).await?;
        match q.next(w).await {
            Next::Frame(WFrame::Ok) => {}
            Next::Frame(WFrame::Error { .. }) => {
                echo.abort();
                continue;
            }
            other => {
                findings.push(("pipelined-requestor/no-verdict".into(), format!("{}: registration with a request pipelined behind it was answered {:?}", case, other)));
                echo.abort();
                continue;
            }
        }
        let mut want = b"re:".to_vec();
        want.extend_from_slice(&body);
        match q.next(Duration::from_secs(5)).await {
            Next::Frame(WFrame::Message { body: b, .. }) if b == want => {}
            other => {
                let short = match &other {
                    Next::Frame(WFrame::Message { body, .. }) => format!("a message of {} bytes", body.len()),
                    o => format!("{:?}", o),
                };
                findings.push(("accepted-then-abandoned/pipelined-requestor".into(), format!("{}: the requestor was answered Ok, yet the request written together with its registration was never answered (got {})", case, short)));
            }
        }
        echo.abort();
    }
    Ok((evals, findings))
}

/// C06: a peer finishes its stream in the middle of a frame (k bytes into the header or the body). The server's frame
/// decoder must report an error for that stream — no panic — and the topic must keep serving its other peers.
pub async fn c06_stream_cuts(addr: SocketAddr, certs: &Certs) -> std::result::Result<(u64, Findings), String> {
    let w = Duration::from_secs(10);
    let mut findings = vec![];
    let mut cuts = 0u64;
    let c = raw_connect(addr, certs).await.map_err(|e| e.to_string())?;
    let c2 = raw_connect(addr, certs).await.map_err(|e| e.to_string())?;
    let topic = "/c06cuts/pub-sub".to_string();
    let rr = "/c06cuts/req-rep".to_string();
    let mut sub = WireStream::register(&c2.conn, T_REG_SUB, &topic, w).await?;
    let mut healthy = WireStream::register(&c2.conn, T_REG_PUB, &topic, w).await?;
    let echo = echo_replier_wire(&c2.conn, &rr).await?;
    let mut hq = WireStream::register(&c2.conn, T_REG_REQ, &rr, w).await?;
    let hdr = vec![("req_id".to_string(), "7".to_string())];
    let full = enc_message(Some(&hdr), &body_for(1, 40, false));
    let mut round = 0u64;
    for kind in [T_REG_PUB, T_REG_REQ, T_REG_SUB, 255u8] {
        for k in [1usize, 2, 3, 5, 7, 8, 9, 10, 13, full.len() - 1] {
            cuts += 1;
            round += 1;
            let mut s = WireStream::open(&c.conn).await.map_err(|e| e.to_string())?;
            if kind == 255 {
                // cut inside the very first frame
                let reg = enc_register(T_REG_PUB, &topic);
                let _ = s.write(&reg[..k.min(reg.len() - 1)]).await;
                let _ = s.finish().await;
            } else {
                let t = if kind == T_REG_REQ { &rr } else { &topic };
                s.write(&enc_register(kind, t)).await?;
                match s.next(w).await {
                    Next::Frame(WFrame::Ok) => {}
                    other => return Err(format!("registration answered {:?}", other)),
                }
                if kind != T_REG_SUB {
                    let _ = s.write(&full).await;
                }
                let _ = s.write(&full[..k]).await;
                let _ = s.finish().await;
            }
            tokio::time::sleep(Duration::from_millis(25)).await;
            // the topics must still serve the healthy peers
            let tag = format!("after-cut-{}", round);
            if let Err(e) = healthy.write(&enc_message(None, tag.as_bytes())).await {
                findings.push(("stream-cut/topic-broken".into(), format!("after a peer of kind {} finished its stream {} byte(s) into a frame, the healthy publisher of the topic can no longer write: {}", kind, k, e)));
                return Ok((cuts, findings));
            }
            let mut seen = false;
            let deadline = tokio::time::Instant::now() + Duration::from_secs(5);
            while tokio::time::Instant::now() < deadline {
                match sub.next(Duration::from_millis(500)).await {
                    Next::Frame(WFrame::Message { body, .. }) if body == tag.as_bytes() => {
                        seen = true;
                        break;
                    }
                    Next::Frame(_) | Next::Timeout => {}
                    other => {
                        findings.push(("stream-cut/topic-broken".into(), format!("after a peer of kind {} finished its stream {} byte(s) into a frame, the healthy subscriber's stream yielded {:?}", kind, k, other)));
                        return Ok((cuts, findings));
                    }
                }
            }
            if !seen {
                findings.push(("stream-cut/topic-broken".into(), format!("after a peer of kind {} finished its stream {} byte(s) into a frame, a healthy publisher's message no longer reaches the healthy subscriber of the topic", kind, k)));
                return Ok((cuts, findings));
            }
            if let Err(e) = hq.write(&enc_message(Some(&hdr), tag.as_bytes())).await {
                findings.push(("stream-cut/topic-broken".into(), format!("after a peer of kind {} finished its stream {} byte(s) into a frame, the healthy requestor of the topic can no longer write: {}", kind, k, e)));
                return Ok((cuts, findings));
            }
            match hq.next(Duration::from_secs(5)).await {
                Next::Frame(WFrame::Message { .. }) => {}
                other => {
                    findings.push(("stream-cut/topic-broken".into(), format!("after a peer of kind {} finished its stream {} byte(s) into a frame, the healthy requestor's request was not answered: {:?}", kind, k, other)));
                    return Ok((cuts, findings));
                }
            }
        }
    }
    echo.abort();
    Ok((cuts, findings))
}

/// C10 when the very first registrations on a topic race: the first replier advertises an 8-byte stream window and
/// does not read, so the server's 9-byte `Ok` to it stalls while a second replier and a requestor register and
/// talk. Whatever the outcome of the race, at most one replier may ever receive the topic's requests, the other one
/// must be told replier-already-bound and closed, and the served one's traffic must not be disturbed.
pub async fn c10_first_registrations_race(addr: SocketAddr, certs: &Certs, id: u64) -> std::result::Result<Findings, String> {
    let w = Duration::from_secs(10);
    let topic = format!("/l3c10w{}/first-come", id);
    let mut findings = vec![];
    let slow_cfg = raw_client_config_window(&read_der(&certs.client_ca()).map_err(|e| e.to_string())?, ClientIdentity::Cert(read_der(&certs.client_cert()).map_err(|e| e.to_string())?, read_der(&certs.client_key()).map_err(|e| e.to_string())?), Some(8)).map_err(|e| e.to_string())?;
    let c1 = raw_connect_with(addr, slow_cfg).await.map_err(|e| e.to_string())?;
    let c2 = raw_connect(addr, certs).await.map_err(|e| e.to_string())?;
    let c3 = raw_connect(addr, certs).await.map_err(|e| e.to_string())?;
    // R1: registers, does not read
    let mut r1 = WireStream::open(&c1.conn).await.map_err(|e| e.to_string())?;
    r1.write(&enc_register(T_REG_REP, &topic)).await?;
    tokio::time::sleep(Duration::from_millis(150)).await;
    // R2 registers and serves
    let mut r2 = WireStream::open(&c2.conn).await.map_err(|e| e.to_string())?;
    r2.write(&enc_register(T_REG_REP, &topic)).await?;
    let r2_first = r2.next(Duration::from_secs(3)).await;
    if r2_first != Next::Frame(WFrame::Ok) {
        return Err(format!("precondition not reached: the second replier's registration was answered {:?}", r2_first));
    }
    let mut q1 = WireStream::register(&c3.conn, T_REG_REQ, &topic, w).await?;
    let hdr = |n: u32| vec![("req_id".to_string(), n.to_string())];
    // R2's view: requests received so far
    let mut r2_got: Vec<Vec<u8>> = vec![];
    let mut r2_state = "open".to_string();
    let mut r1_got: Vec<Vec<u8>> = vec![];
    // Q1's first request; R2 (if bound) answers
    q1.write(&enc_message(Some(&hdr(0)), b"q1-first")).await?;
    let mut pump_r2 = |r2: &mut WireStream, r2_got: &mut Vec<Vec<u8>>| {
        let _ = (r2, r2_got);
    };
    let _ = &mut pump_r2;
    async fn serve(r: &mut WireStream, got: &mut Vec<Vec<u8>>, state: &mut String, wait: Duration) {
        loop {
            match r.next(wait).await {
                Next::Frame(WFrame::Message { headers, body }) => {
                    got.push(body.clone());
                    let mut b = b"re:".to_vec();
                    b.extend_from_slice(&body);
                    let _ = r.write(&enc_message(headers.as_deref(), &b)).await;
                }
                Next::Frame(WFrame::Error { code, .. }) => *state = format!("error code {}", code),
                Next::Frame(WFrame::Ok) => {}
                Next::Frame(_) => {}
                Next::Timeout => return,
                Next::Eof => {
                    state.push_str(" then closed");
                    return;
                }
                Next::Reset(e) => {
                    state.push_str(&format!(" then reset ({})", e));
                    return;
                }
                Next::Garbage(e) => {
                    *state = format!("garbage: {}", e);
                    return;
                }
            }
        }
    }
    serve(&mut r2, &mut r2_got, &mut r2_state, Duration::from_millis(400)).await;
    let q1_first = q1.next(Duration::from_millis(600)).await;
    // R1 starts reading now: its Ok arrives, then whatever the router decided
    let mut r1_state = "open".to_string();
    serve(&mut r1, &mut r1_got, &mut r1_state, Duration::from_millis(600)).await;
    // a late requestor and another request of the first one
    let mut q2 = WireStream::register(&c3.conn, T_REG_REQ, &topic, w).await?;
    q2.write(&enc_message(Some(&hdr(0)), b"q2-first")).await?;
    let q1w = q1.write(&enc_message(Some(&hdr(1)), b"q1-second")).await;
    for _ in 0..3 {
        serve(&mut r2, &mut r2_got, &mut r2_state, Duration::from_millis(250)).await;
        serve(&mut r1, &mut r1_got, &mut r1_state, Duration::from_millis(250)).await;
    }
    let q2_first = q2.next(Duration::from_millis(800)).await;
    let q1_second = q1.next(Duration::from_millis(800)).await;
    let show = |v: &Vec<Vec<u8>>| v.iter().map(|b| String::from_utf8_lossy(b).to_string()).collect::<Vec<_>>();
    let history = format!(
        "R1 (registered first, 8-byte window, started reading late): {} , received {:?}; R2: {}, received {:?}; Q1 first reply {:?}, second write {:?}, second reply {:?}; Q2 reply {:?}",
        r1_state,
        show(&r1_got),
        r2_state,
        show(&r2_got),
        brief_next(&q1_first),
        q1w,
        brief_next(&q1_second),
        brief_next(&q2_first)
    );
    if !r1_got.is_empty() && !r2_got.is_empty() {
        findings.push(("two-repliers-served/first-registrations-race".to_string(), format!("both repliers received requests of the topic, neither had left — {}", history)));
    }
    let rejected = |st: &str| st.starts_with("error code 5") && (st.contains("closed") || st.contains("reset"));
    match (r1_got.is_empty(), r2_got.is_empty()) {
        (true, false) => {
            if !rejected(&r1_state) {
                findings.push(("rejected-replier-not-told/first-registrations-race".into(), format!("R2 is the served replier, so R1 must receive replier-already-bound and be closed — {}", history)));
            }
            if r2_state != "open" {
                findings.push(("bound-replier-disturbed/first-registrations-race".into(), format!("the served replier's stream did not stay open — {}", history)));
            }
        }
        (false, true) => {
            if !rejected(&r2_state) {
                findings.push(("rejected-replier-not-told/first-registrations-race".into(), format!("R1 is the served replier, so R2 must receive replier-already-bound and be closed — {}", history)));
            }
        }
        (true, true) => findings.push(("no-replier-served/first-registrations-race".into(), format!("two repliers registered and none left, yet no request reached either — {}", history))),
        _ => {}
    }
    let total = r1_got.len() + r2_got.len();
    if total < 3 && (r1_got.is_empty() != r2_got.is_empty()) {
        findings.push(("requests-lost/first-registrations-race".into(), format!("3 requests were sent while a replier was bound, {} arrived — {}", total, history)));
    }
    Ok(findings)
}

/// C10 when the *rejected* replier is slow to take data: R1 is bound and serves; R2 registers over a connection whose
/// per-stream receive window (`window` bytes: the 9-byte `Ok` fits, the replier-already-bound frame does not) stalls
/// the server's refusal, reads nothing for a while, then reads to the end. It must see `Ok`, the refusal, and a
/// clean end of stream; R1 must be served before, during and after.
pub async fn c10_slow_rejected_replier(addr: SocketAddr, certs: &Certs, id: u64, window: u32, stall_ms: u64, stalled_stranger: bool) -> std::result::Result<Findings, String> {
    let w = Duration::from_secs(10);
    let topic = format!("/l3c10s{}/slow-loser", id);
    let mut findings = vec![];
    let slow_cfg = raw_client_config_window(&read_der(&certs.client_ca()).map_err(|e| e.to_string())?, ClientIdentity::Cert(read_der(&certs.client_cert()).map_err(|e| e.to_string())?, read_der(&certs.client_key()).map_err(|e| e.to_string())?), Some(window)).map_err(|e| e.to_string())?;
    let c1 = raw_connect(addr, certs).await.map_err(|e| e.to_string())?;
    let c2 = raw_connect_with(addr, slow_cfg).await.map_err(|e| e.to_string())?;
    let c3 = raw_connect(addr, certs).await.map_err(|e| e.to_string())?;
    let mut r1 = WireStream::register(&c1.conn, T_REG_REP, &topic, w).await?;
    let mut q1 = WireStream::register(&c3.conn, T_REG_REQ, &topic, w).await?;
    let hdr = |n: u32| vec![("req_id".to_string(), n.to_string())];
    // one round trip through R1: it is bound
    async fn serve_one(q: &mut WireStream, r: &mut WireStream, body: &[u8]) -> std::result::Result<(), String> {
        match r.next(Duration::from_secs(5)).await {
            Next::Frame(WFrame::Message { headers, body: b }) if b == body => {
                let mut rb = b"re:".to_vec();
                rb.extend_from_slice(&b);
                r.write(&enc_message(headers.as_deref(), &rb)).await?;
            }
            other => return Err(format!("the bound replier received {} instead of the request", brief_next(&other))),
        }
        match q.next(Duration::from_secs(5)).await {
            Next::Frame(WFrame::Message { body: b, .. }) if b.ends_with(body) => Ok(()),
            other => Err(format!("the requestor received {} instead of the reply", brief_next(&other))),
        }
    }
    async fn round(q: &mut WireStream, r: &mut WireStream, h: &[(String, String)], body: &[u8]) -> std::result::Result<(), String> {
        q.write(&enc_message(Some(h), body)).await?;
        serve_one(q, r, body).await
    }
    if let Err(e) = round(&mut q1, &mut r1, &hdr(0), b"before").await {
        return Err(format!("precondition not reached: {}", e));
    }
    // `stalled_stranger`: from now on, on an unrelated pub/sub topic, a peer asks for the wrong messaging pattern and never
    // takes delivery of the refusal (16-byte window, reads nothing). None of C10's clauses may depend on it.
    let mut _stranger = None;
    if stalled_stranger {
        let side = format!("/l3c10s{}/pubsub-side", id);
        let c0 = raw_connect(addr, certs).await.map_err(|e| e.to_string())?;
        let _side_sub = WireStream::register(&c0.conn, T_REG_SUB, &side, w).await?;
        let tiny = raw_client_config_window(&read_der(&certs.client_ca()).map_err(|e| e.to_string())?, ClientIdentity::Cert(read_der(&certs.client_cert()).map_err(|e| e.to_string())?, read_der(&certs.client_key()).map_err(|e| e.to_string())?), Some(16)).map_err(|e| e.to_string())?;
        let c4 = raw_connect_with(addr, tiny).await.map_err(|e| e.to_string())?;
        let mut wrong = WireStream::open(&c4.conn).await.map_err(|e| e.to_string())?;
        wrong.write(&enc_register(T_REG_REQ, &side)).await?;
        tokio::time::sleep(Duration::from_millis(120)).await;
        _stranger = Some((c0, _side_sub, c4, wrong));
    }
    // R2: registers, does not read
    let mut r2 = WireStream::open(&c2.conn).await.map_err(|e| e.to_string())?;
    r2.write(&enc_register(T_REG_REP, &topic)).await?;
    tokio::time::sleep(Duration::from_millis(stall_ms)).await;
    // a request made meanwhile (the router may hold it until the refusal has been taken: one router serves its peers in
    // turn, so a slow peer delays its own topic — C17 is about *other* topics; what C10 asks is that nothing is lost,
    // misrouted or handed to the rejected replier)
    q1.write(&enc_message(Some(&hdr(1)), b"during")).await?;
    // R2 reads to the end
    let mut seen: Vec<String> = vec![];
    let mut told = false;
    let mut clean = false;
    let mut got_request = false;
    for _ in 0..8 {
        match r2.next(Duration::from_secs(6)).await {
            Next::Frame(WFrame::Ok) => seen.push("Ok".into()),
            Next::Frame(WFrame::Error { code, .. }) => {
                seen.push(format!("Error({})", code));
                if code == 5 {
                    told = true;
                }
            }
            Next::Frame(WFrame::Message { body, .. }) => {
                got_request = true;
                seen.push(format!("Message({})", String::from_utf8_lossy(&body[..body.len().min(16)])));
            }
            Next::Frame(_) => seen.push("other frame".into()),
            Next::Eof => {
                seen.push("end of stream".into());
                clean = true;
                break;
            }
            Next::Reset(e) => {
                seen.push(format!("reset ({})", e));
                break;
            }
            Next::Garbage(e) => {
                seen.push(format!("undecodable: {}", e));
                break;
            }
            Next::Timeout => {
                seen.push("nothing for 6 s".into());
                break;
            }
        }
    }
    let during = serve_one(&mut q1, &mut r1, b"during").await;
    let after = round(&mut q1, &mut r1, &hdr(2), b"after").await;
    let history = format!("R2 (rejected, {}-byte stream window, read nothing for {} ms{}) then read {:?}; R1 round trips: during {:?}, after {:?}", window, stall_ms, if stalled_stranger { "; elsewhere a peer refused for the wrong pattern is not reading its refusal" } else { "" }, seen, during, after);
    if !told {
        findings.push(("rejected-replier-not-told/slow-loser".to_string(), format!("a second replier registered while the first was bound; it was never told replier-already-bound — {}", history)));
    } else if !clean {
        findings.push(("rejected-replier-not-closed/slow-loser".to_string(), format!("the rejected replier's stream did not end cleanly after the refusal — {}", history)));
    }
    if got_request {
        findings.push(("two-repliers-served/slow-loser".to_string(), format!("the rejected replier received a request — {}", history)));
    }
    if let Err(e) = during.as_ref().and(after.as_ref()) {
        findings.push(("bound-replier-disturbed/slow-loser".to_string(), format!("once the refusal had been taken, the bound replier's traffic (a request made during the refusal, one made after it) did not get through: {} — {}", e, history)));
    }
    Ok(findings)
}

/// C11 with slow siblings: `idle` streams of one connection have sent only the first `k` bytes of their registration
/// (a peer that writes in small pieces, or a proxy that forwards a header late) and stay open. Every *other* stream of
/// that connection that sends a complete registration must still be answered and served; and each slow stream must be
/// answered once its registration is complete.
pub async fn c11_idle_sibling_streams(addr: SocketAddr, certs: &Certs, idle: usize, id: u64) -> std::result::Result<(u64, Findings), String> {
    let w = Duration::from_secs(6);
    let mut findings = vec![];
    let c = raw_connect(addr, certs).await.map_err(|e| e.to_string())?;
    let topic = format!("/l3c11i{}/slow-siblings", id);
    let mut slow: Vec<(WireStream, Vec<u8>, usize)> = vec![];
    for i in 0..idle {
        let mut s = WireStream::open(&c.conn).await.map_err(|e| e.to_string())?;
        let kind = [T_REG_SUB, T_REG_PUB, T_REG_REQ, T_REG_REP][i % 4];
        let t = if kind == T_REG_SUB || kind == T_REG_PUB { format!("/l3c11i{}/slow-ps-{}", id, i) } else { format!("/l3c11i{}/slow-rr-{}", id, i) };
        let reg = enc_register(kind, &t);
        let k = [1usize, 4, 8, 9, 12, reg.len() - 1][i % 6].min(reg.len() - 1);
        s.write(&reg[..k]).await?;
        slow.push((s, reg, k));
    }
    tokio::time::sleep(Duration::from_millis(150)).await;
    // a complete registration on the same connection
    let mut evals = 0u64;
    let served = async {
        let mut sub = match WireStream::register(&c.conn, T_REG_SUB, &topic, w).await {
            Ok(s) => s,
            Err(e) => return Err(format!("subscriber registration: {}", e)),
        };
        let mut p = match WireStream::register(&c.conn, T_REG_PUB, &topic, w).await {
            Ok(s) => s,
            Err(e) => return Err(format!("publisher registration: {}", e)),
        };
        for _ in 0..30 {
            p.write(&enc_message(None, b"through")).await?;
            if let Next::Frame(WFrame::Message { body, .. }) = sub.next(Duration::from_millis(200)).await {
                if body == b"through" {
                    return Ok(());
                }
            }
        }
        Err("both registrations were answered Ok but no message got through in 6 s".to_string())
    };
    evals += 1;
    if let Err(e) = served.await {
        findings.push((
            "accepted-then-abandoned/slow-sibling-streams".to_string(),
            format!("{} streams of one connection had sent only the first 1–12 bytes of their registration and stayed open; a further stream of that connection sent a complete registration and ended up neither served nor refused: {}", idle, e),
        ));
    }
    // the slow ones complete: each must be answered
    let mut unanswered = vec![];
    for (i, (s, reg, k)) in slow.iter_mut().enumerate() {
        evals += 1;
        s.write(&reg[*k..]).await?;
        match s.next(w).await {
            Next::Frame(WFrame::Ok) | Next::Frame(WFrame::Error { .. }) => {}
            other => unanswered.push(format!("#{} ({} bytes first): {}", i, k, brief_next(&other))),
        }
    }
    if !unanswered.is_empty() {
        findings.push((
            "no-verdict/slow-registration".to_string(),
            format!("{} of {} streams whose registration arrived in two pieces were neither answered Ok nor refused within 6 s: {:?}", unanswered.len(), idle, &unanswered[..unanswered.len().min(5)]),
        ));
    }
    Ok((evals, findings))
}

fn brief_next(n: &Next) -> String {
    match n {
        Next::Frame(WFrame::Message { body, .. }) => format!("Message({})", String::from_utf8_lossy(&body[..body.len().min(24)])),
        other => format!("{:?}", other),
    }
}

/// C06, consuming-client side: a server (an independent quinn endpoint speaking the wire format by hand) accepts a
/// library Subscriber / Requestor / Replier, sends it something valid, then k bytes of a frame, and finishes the
/// stream. The client's frame decoder must yield an error or the end of the stream — the monitors are the process'
/// panic log and exit status (this runs in the C06 child process).
pub async fn c06_client_stream_cuts(certs: &Certs) -> std::result::Result<u64, String> {
    use selium::prelude::*;
    use selium::std::codecs::StringCodec;
    use selium_server::quic::{load_root_store, read_certs, server_config, ConfigOptions};
    use std::sync::atomic::{AtomicUsize, Ordering};
    let roots = load_root_store(certs.server_ca()).map_err(|e| e.to_string())?;
    let (chain, key) = read_certs(certs.server_cert(), certs.server_key()).map_err(|e| e.to_string())?;
    let cfg = server_config(roots, chain, key, ConfigOptions { keylog: false, stateless_retry: false, max_idle_timeout: quinn::IdleTimeout::from(quinn::VarInt::from_u32(15_000)) }).map_err(|e| e.to_string())?;
    let endpoint = quinn::Endpoint::server(cfg, "127.0.0.1:0".parse().unwrap()).map_err(|e| e.to_string())?;
    let addr = endpoint.local_addr().map_err(|e| e.to_string())?;
    const CUTS: [usize; 10] = [1, 2, 3, 5, 7, 8, 9, 10, 13, 30];
    let served = Arc::new(AtomicUsize::new(0));
    let s2 = served.clone();
    let task = tokio::spawn(async move {
        while let Some(connecting) = endpoint.accept().await {
            let served = s2.clone();
            tokio::spawn(async move {
                let Ok(conn) = connecting.await else { return };
                while let Ok((mut send, mut recv)) = conn.accept_bi().await {
                    let n = served.fetch_add(1, Ordering::SeqCst);
                    tokio::spawn(async move {
                        let mut buf = vec![0u8; 4096];
                        let first = match recv.read(&mut buf).await {
                            Ok(Some(n)) if n >= 9 => buf[8],
                            _ => return,
                        };
                        let k = CUTS[n % CUTS.len()];
                        let hdr = vec![("cid".to_string(), "0".to_string()), ("req_id".to_string(), "0".to_string())];
                        let valid = if first == T_REG_REP { enc_message(Some(&hdr), b"\x05\0\0\0\0\0\0\0hello") } else { enc_message(None, b"hello") };
                        let _ = send.write_all(&frame(T_OK, &[])).await;
                        if first == T_REG_REQ {
                            // wait for the request, answer it validly once, then cut
                            let _ = recv.read(&mut buf).await;
                            let _ = send.write_all(&enc_message(Some(&hdr), b"re:hello")).await;
                        } else {
                            let _ = send.write_all(&valid).await;
                        }
                        let _ = send.write_all(&valid[..k.min(valid.len() - 1)]).await;
                        let _ = send.finish().await;
                        // keep the receive side open for a moment
                        tokio::time::sleep(Duration::from_millis(300)).await;
                    });
                }
            });
        }
    });
    let bo = selium::keep_alive::BackoffStrategy::constant().with_max_attempts(1).with_step(Duration::from_millis(5));
    let client = lib_client(&addr.to_string(), certs, Some(bo)).await.map_err(|e| format!("connect to the hand-written server: {e}"))?;
    let mut n = 0u64;
    for i in 0..CUTS.len() {
        // subscriber
        if let Ok(mut sub) = client.subscriber(&format!("/c06cut/sub{}", i)).with_decoder(StringCodec).open().await {
            for _ in 0..3 {
                match tokio::time::timeout(Duration::from_millis(700), sub.next()).await {
                    Ok(Some(Ok(_))) => {}
                    _ => break,
                }
            }
            n += 1;
        }
        // requestor
        if let Ok(rq) = client.requestor(&format!("/c06cut/req{}", i)).with_request_encoder(StringCodec).with_reply_decoder(StringCodec).with_request_timeout(400u64) {
            if let Ok(mut rq) = rq.open().await {
                for _ in 0..2 {
                    let _ = tokio::time::timeout(Duration::from_millis(1500), rq.request("hello".to_string())).await;
                }
                n += 1;
            }
        }
        // replier
        if let Ok(mut rp) = client
            .replier(&format!("/c06cut/rep{}", i))
            .with_request_decoder(StringCodec)
            .with_reply_encoder(StringCodec)
            .with_handler(|s: String| async move { Ok::<String, std::convert::Infallible>(s) })
            .open()
            .await
        {
            let _ = tokio::time::timeout(Duration::from_millis(900), rp.listen()).await;
            n += 1;
        }
    }
    task.abort();
    if served.load(Ordering::SeqCst) == 0 {
        return Err("precondition not reached: the hand-written server saw no stream".into());
    }
    Ok(n)
}

/// C11, library side: a refusal (error frame with a code) must be reported by `open()` as an error — whatever the
/// code and whatever bytes the message carries. The refusing server is hand-written.
pub async fn c11_library_reports_refusals(certs: &Certs) -> std::result::Result<(u64, Findings), String> {
    use selium::prelude::*;
    use selium::std::codecs::StringCodec;
    use selium_server::quic::{load_root_store, read_certs, server_config, ConfigOptions};
    use std::sync::atomic::{AtomicUsize, Ordering};
    let roots = load_root_store(certs.server_ca()).map_err(|e| e.to_string())?;
    let (chain, key) = read_certs(certs.server_cert(), certs.server_key()).map_err(|e| e.to_string())?;
    let cfg = server_config(roots, chain, key, ConfigOptions { keylog: false, stateless_retry: false, max_idle_timeout: quinn::IdleTimeout::from(quinn::VarInt::from_u32(15_000)) }).map_err(|e| e.to_string())?;
    let endpoint = quinn::Endpoint::server(cfg, "127.0.0.1:0".parse().unwrap()).map_err(|e| e.to_string())?;
    let addr = endpoint.local_addr().map_err(|e| e.to_string())?;
    // (code, message bytes)
    let refusals: Arc<Vec<(u32, Vec<u8>)>> = Arc::new(vec![
        (0, b"unknown".to_vec()),
        (3, b"invalid topic".to_vec()),
        (5, vec![]),
        (7, vec![0xff, 0xfe, 0x80]),             // not UTF-8
        (1, vec![0xc3]),                         // truncated UTF-8
        (u32::MAX, b"code nobody knows".to_vec()),
        (6, vec![b'x'; 70_000]),
        (4, "é中💥\u{feff}".as_bytes().to_vec()),
    ]);
    let served = Arc::new(AtomicUsize::new(0));
    let (s2, r2) = (served.clone(), refusals.clone());
    let task = tokio::spawn(async move {
        while let Some(connecting) = endpoint.accept().await {
            let (served, refusals) = (s2.clone(), r2.clone());
            tokio::spawn(async move {
                let Ok(conn) = connecting.await else { return };
                while let Ok((mut send, mut recv)) = conn.accept_bi().await {
                    let n = served.fetch_add(1, Ordering::SeqCst);
                    let refusals = refusals.clone();
                    tokio::spawn(async move {
                        let mut buf = vec![0u8; 4096];
                        let _ = recv.read(&mut buf).await;
                        let (code, msg) = &refusals[(n / 4) % refusals.len()];
                        let _ = send.write_all(&enc_error(*code, msg)).await;
                        let _ = send.finish().await;
                        tokio::time::sleep(Duration::from_millis(200)).await;
                    });
                }
            });
        }
    });
    let bo = selium::keep_alive::BackoffStrategy::constant().with_max_attempts(1).with_step(Duration::from_millis(5));
    let client = lib_client(&addr.to_string(), certs, Some(bo)).await.map_err(|e| format!("connect to the hand-written server: {e}"))?;
    let mut findings = vec![];
    let mut n = 0u64;
    for (i, (code, msg)) in refusals.iter().enumerate() {
        let what = format!("error frame with code {} and a {}-byte message ({})", code, msg.len(), if std::str::from_utf8(msg).is_ok() { "UTF-8" } else { "not UTF-8" });
        let w = Duration::from_secs(6);
        // the four roles, in this order (the server answers streams 4i .. 4i+3 with refusal i)
        let r0 = tokio::time::timeout(w, client.publisher(&format!("/c11lib/pub{}", i)).with_encoder(StringCodec).open()).await.map(|r| r.map(|_| ()).map_err(|e| e.to_string()));
        let r1 = tokio::time::timeout(w, client.subscriber(&format!("/c11lib/sub{}", i)).with_decoder(StringCodec).open()).await.map(|r| r.map(|_| ()).map_err(|e| e.to_string()));
        let r2 = match client.requestor(&format!("/c11lib/req{}", i)).with_request_encoder(StringCodec).with_reply_decoder(StringCodec).with_request_timeout(500u64) {
            Ok(b) => tokio::time::timeout(w, b.open()).await.map(|r| r.map(|_| ()).map_err(|e| e.to_string())),
            Err(e) => Ok(Err(e.to_string())),
        };
        let r3 = tokio::time::timeout(
            w,
            client
                .replier(&format!("/c11lib/rep{}", i))
                .with_request_decoder(StringCodec)
                .with_reply_encoder(StringCodec)
                .with_handler(|s: String| async move { Ok::<String, std::convert::Infallible>(s) })
                .open(),
        )
        .await
        .map(|r| r.map(|_| ()).map_err(|e| e.to_string()));
        for (role, r) in [("publisher", r0), ("subscriber", r1), ("requestor", r2), ("replier", r3)] {
            n += 1;
            match r {
                Ok(Err(_)) => {}
                Ok(Ok(())) => findings.push(("library-reports-refusal-as-success".to_string(), format!("{}: open() of a {} returned Ok although the server answered with an {}", role, role, what))),
                Err(_) => findings.push(("library-hangs-on-refusal".to_string(), format!("{}: open() of a {} did not return within 6 s after the server answered with an {}", role, role, what))),
            }
        }
    }
    task.abort();
    if served.load(Ordering::SeqCst) == 0 {
        return Err("precondition not reached: the hand-written server saw no stream".into());
    }
    Ok((n, findings))
}

/// C11 with topic names outside ASCII (letters the name grammar's `\w` admits, multi-byte in UTF-8, placed so that
/// they straddle every small byte offset): each of the four registrations must end up served or refused with an
/// error frame — never a stream that just ends.
pub async fn c11_unicode_names(addr: SocketAddr, certs: &Certs) -> std::result::Result<(u64, Findings), String> {
    let c = raw_connect(addr, certs).await.map_err(|e| e.to_string())?;
    let mut findings: Findings = vec![];
    let mut n = 0u64;
    let mut names: Vec<String> = vec![];
    for ch in ['é', '中', '𐐀'] {
        for k in 0..8usize {
            // the multi-byte letter after k ASCII letters, in the namespace and in the topic part
            names.push(format!("/{}{}{}/topic", "abcdefgh".chars().take(k).collect::<String>(), ch, if k < 2 { "zz" } else { "" }));
            names.push(format!("/name-space/{}{}{}", "seliumxy".chars().take(k).collect::<String>(), ch, if k < 2 { "zz" } else { "" }));
        }
        names.push(format!("/seliu{}/topic", ch));
        names.push(format!("/{}/{}", std::iter::repeat(ch).take(64).collect::<String>(), std::iter::repeat(ch).take(64).collect::<String>()));
    }
    for (i, name) in names.iter().enumerate() {
        let kind = (i % 4) as u8;
        n += 1;
        let mut s = WireStream::open(&c.conn).await.map_err(|e| e.to_string())?;
        s.write(&enc_register(kind, name)).await?;
        match s.next(Duration::from_secs(5)).await {
            Next::Frame(WFrame::Ok) | Next::Frame(WFrame::Error { .. }) => {}
            other => findings.push((
                "no-verdict/non-ascii-name".to_string(),
                format!("registration of kind {} on {:?} ({} bytes) was neither served nor refused with an error frame: {:?}", kind, name, name.len(), other),
            )),
        }
        if findings.len() >= 3 {
            break;
        }
    }
    Ok((n, findings))
}

/// Several peers register on a topic nobody has used yet *at the same moment* (separate, already established
/// connections, released by a barrier; the server runs on a multi-threaded runtime). Whichever registration creates
/// the topic, every peer that is answered Ok must end up on the same router: a publisher that joins afterwards reaches
/// every accepted subscriber, and a topic never accepts both messaging patterns.
pub async fn concurrent_first_registrations(addr: SocketAddr, certs: &Certs, rounds: usize, id: u64) -> std::result::Result<(u64, Findings), String> {
    let n = 10usize;
    let w = Duration::from_secs(10);
    let mut findings: Findings = vec![];
    let mut evals = 0u64;
    let mut conns: Vec<Arc<RawConn>> = vec![];
    for round in 0..rounds {
        if round % 25 == 0 {
            // streams of earlier rounds linger on the server side (100 per connection)
            conns.clear();
            for _ in 0..n {
                conns.push(Arc::new(raw_connect(addr, certs).await.map_err(|e| e.to_string())?));
            }
        }
        let topic = format!("/l3race{}/fresh-{}", id, round);
        let mixed = round % 3 == 2;
        let barrier = Arc::new(tokio::sync::Barrier::new(n));
        let mut tasks = vec![];
        for k in 0..n {
            let (c, b, t) = (conns[k].clone(), barrier.clone(), topic.clone());
            let kind = if mixed && k % 2 == 1 { T_REG_REQ } else { T_REG_SUB };
            tasks.push(tokio::spawn(async move {
                let mut s = match WireStream::open(&c.conn).await {
                    Ok(s) => s,
                    Err(e) => return (kind, Err(e.to_string()), None),
                };
                b.wait().await;
                if let Err(e) = s.write(&enc_register(kind, &t)).await {
                    return (kind, Err(e), None);
                }
                let v = s.next(Duration::from_secs(10)).await;
                (kind, Ok(v), Some(s))
            }));
        }
        let mut subs: Vec<WireStream> = vec![];
        let mut ok_kinds: Vec<u8> = vec![];
        for t in tasks {
            let (kind, v, s) = t.await.map_err(|e| e.to_string())?;
            match v {
                Ok(Next::Frame(WFrame::Ok)) => {
                    ok_kinds.push(kind);
                    if kind == T_REG_SUB {
                        subs.push(s.unwrap());
                    }
                }
                Ok(Next::Frame(WFrame::Error { .. })) => {}
                Ok(other) => findings.push(("no-verdict/concurrent-first-registrations".into(), format!("round {}: a registration of kind {} on a fresh topic, sent together with {} others, was answered {:?}", round, kind, n - 1, other))),
                Err(e) => return Err(format!("harness: {}", e)),
            }
        }
        evals += 1;
        if ok_kinds.iter().any(|k| *k == T_REG_SUB) && ok_kinds.iter().any(|k| *k == T_REG_REQ) {
            findings.push((
                "mixed-patterns-on-one-topic/concurrent-first-registrations".into(),
                format!("round {}: {} subscribers and {} requestors that registered at the same moment on the fresh topic {} were all answered Ok", round, ok_kinds.iter().filter(|k| **k == T_REG_SUB).count(), ok_kinds.iter().filter(|k| **k == T_REG_REQ).count(), topic),
            ));
        }
        if !subs.is_empty() && !ok_kinds.iter().any(|k| *k == T_REG_REQ) {
            // a publisher joins afterwards; every accepted subscriber must get its messages
            let cp = &conns[0];
            let mut p = match WireStream::register(&cp.conn, T_REG_PUB, &topic, w).await {
                Ok(p) => p,
                Err(e) => {
                    findings.push(("publisher-refused/concurrent-first-registrations".into(), format!("round {}: {}", round, e)));
                    continue;
                }
            };
            tokio::time::sleep(Duration::from_millis(30)).await;
            let mut sent = vec![];
            for i in 0..3 {
                let b = body_for(i, 24, i == 2);
                sent.push((i, b.len(), msg_sig(None, &b)));
                p.write(&enc_message(None, &b)).await?;
            }
            let total = subs.len();
            let mut bad = vec![];
            for (k, s) in subs.into_iter().enumerate() {
                let (got, how) = drain_sub(s, Duration::from_secs(3)).await;
                if got != sent {
                    bad.push(format!("subscriber {} received {} of 3 ({})", k, got.len(), how));
                }
            }
            if !bad.is_empty() {
                findings.push((
                    "accepted-then-abandoned/concurrent-first-registrations".into(),
                    format!("round {}: {} subscribers registered at the same moment on the fresh topic {} and were all answered Ok; a publisher that joined afterwards sent 3 messages: {}", round, total, topic, bad.join("; ")),
                ));
            }
        }
        if findings.len() >= 3 {
            break;
        }
    }
    Ok((evals, findings))
}

/// C01 with peers the client library never plays: a publisher that writes its first messages in the same flight as its
/// registration, and a subscriber that finishes its own (unused) sending direction right after it was accepted. The
/// server accepted both; every message of the accepted publisher reaches every healthy subscriber, in order.
pub async fn c01_pipelined_and_half_closed(addr: SocketAddr, certs: &Certs, id: u64) -> std::result::Result<(u64, Findings), String> {
    let w = Duration::from_secs(10);
    let topic = format!("/l3c01p{}/odd-peers", id);
    let c1 = raw_connect(addr, certs).await.map_err(|e| e.to_string())?;
    let c2 = raw_connect(addr, certs).await.map_err(|e| e.to_string())?;
    let mut plain = WireStream::register(&c1.conn, T_REG_SUB, &topic, w).await?;
    let mut half = WireStream::register(&c1.conn, T_REG_SUB, &topic, w).await?;
    let _ = half.finish().await; // half-close: this subscriber will never send anything
    let mut helper = WireStream::register(&c2.conn, T_REG_PUB, &topic, w).await?;
    for s in [&mut plain, &mut half] {
        let mut ok = false;
        for _ in 0..60 {
            helper.write(&enc_message(None, b"sentinel")).await?;
            match s.next(Duration::from_millis(100)).await {
                Next::Frame(WFrame::Message { body, .. }) if body.starts_with(b"sentinel") => {
                    ok = true;
                    break;
                }
                Next::Frame(_) | Next::Timeout => {}
                other => return Ok((0, vec![("half-closed-subscriber/abandoned".into(), format!("a subscriber that was answered Ok saw its stream end before anything was delivered: {:?} (one of the two subscribers had finished its own sending direction right after the Ok)", other))])),
            }
        }
        if !ok {
            return Ok((0, vec![("half-closed-subscriber/abandoned".into(), "a subscriber that was answered Ok (one of the two had finished its own sending direction right after the Ok) never received the sentinel a publisher kept sending for 6 s".to_string())]));
        }
    }
    // the pipelining publisher
    let mut p = WireStream::open(&c2.conn).await.map_err(|e| e.to_string())?;
    let mut bytes = enc_register(T_REG_PUB, &topic);
    let mut sent = vec![];
    for i in 0..3 {
        let b = body_for(i, 40 + i * 1000, false);
        sent.push((i, b.len(), msg_sig(None, &b)));
        bytes.extend_from_slice(&enc_message(None, &b));
    }
    p.write(&bytes).await?;
    match p.next(w).await {
        Next::Frame(WFrame::Ok) => {}
        Next::Frame(WFrame::Error { .. }) => return Ok((0, vec![])), // refused outright: nothing was accepted
        other => return Ok((0, vec![("pipelined-publisher/no-verdict".into(), format!("{:?}", other))])),
    }
    // … the later ones with application headers outside ASCII (multi-byte keys and values)
    for i in 3..6 {
        let b = body_for(i, 64, i == 5);
        let hdr = vec![("schlüssel".to_string(), "wért-中-💥".to_string()), ("k".to_string(), "é".repeat(i))];
        sent.push((i, b.len(), msg_sig(Some(&hdr), &b)));
        p.write(&enc_message(Some(&hdr), &b)).await?;
    }
    let mut findings = vec![];
    let mut deliveries = 0u64;
    for (name, s) in [("plain subscriber", plain), ("subscriber that had finished its sending direction", half)] {
        let (got, how) = drain_sub(s, Duration::from_secs(5)).await;
        deliveries += got.len() as u64;
        if got != sent {
            findings.push((
                "undelivered/pipelined-publisher".to_string(),
                format!("the publisher was answered Ok; it had written 3 messages in the same flight as its registration and 3 afterwards; the {} received seq {:?} ({})", name, got.iter().map(|x| x.0).collect::<Vec<_>>(), how),
            ));
        }
    }
    Ok((deliveries, findings))
}

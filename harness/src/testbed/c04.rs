//! C04 — each request() gets its own reply, or a timely error. Real `Requestor`s (clones, separate
//! streams, separate connections) against a scripted raw replier that speaks the wire protocol:
//! the request payload itself carries the directive the replier follows (answer now / late / never /
//! twice / with an unknown req_id first), so every history is self-describing.

use super::c03::{compression_pair, DynComp, DynDecomp};
use super::*;
use crate::common::{write_replay, Hasher64, Rng, StageReport, Violation};
use bytes::{Bytes, BytesMut};
use selium::prelude::*;
use selium::std::codecs::StringCodec;
use selium::std::errors::SeliumError;
use selium::std::traits::codec::{MessageDecoder, MessageEncoder};
use selium::std::traits::compression::{Compress, Decompress};
use selium_protocol::{MessagePayload, ReplierPayload, TopicName};
use serde_json::{json, Value};
use std::collections::HashMap;
use std::time::Instant;
use tokio::sync::mpsc;

#[derive(Clone, Copy, Debug, PartialEq)]
enum Mode {
    Now,
    Short, // delayed well inside the timeout, so that replies overtake each other
    Late,  // released long after the timeout
    Late15, // released 1.5 × timeout after receipt: arrives while the *next* requestor generation has a call pending
    Never,
    Twice,
    UnknownFirst,
}

impl Mode {
    fn name(self) -> &'static str {
        match self {
            Mode::Now => "now",
            Mode::Short => "short",
            Mode::Late => "late",
            Mode::Late15 => "late15",
            Mode::Never => "never",
            Mode::Twice => "twice",
            Mode::UnknownFirst => "unknown-first",
        }
    }
    fn parse(s: &str) -> Mode {
        match s {
            "short" => Mode::Short,
            "late" => Mode::Late,
            "late15" => Mode::Late15,
            "never" => Mode::Never,
            "twice" => Mode::Twice,
            "unknown-first" => Mode::UnknownFirst,
            _ => Mode::Now,
        }
    }
}

#[derive(Clone, Debug)]
struct Call {
    id: String,
    mode: Mode,
    requestor: String,
    start_ms: u128,
    end_ms: u128,
    result: std::result::Result<String, String>,
    timed_out: bool,
}

struct ReplierLog {
    received: u64,
    sent: u64,
    prompt_sent: HashMap<String, u128>,
}

/// scripted raw replier: returns a handle that keeps it alive
async fn spawn_replier(addr: SocketAddr, certs: &Certs, topic: &str, comp: Option<(DynComp, DynDecomp)>, timeout_ms: u64, log: Arc<Mutex<ReplierLog>>) -> Result<(RawConn, tokio::task::JoinHandle<()>)> {
    let raw = raw_connect(addr, certs).await?;
    let tn = TopicName::try_from(topic).map_err(|e| anyhow!("{e}"))?;
    let (stream, reply) = raw.open(Frame::RegisterReplier(ReplierPayload { topic: tn }), Duration::from_secs(10)).await?;
    if reply != Some(Frame::Ok) {
        return Err(anyhow!("raw replier registration answered {:?}", reply));
    }
    let (mut write, mut read) = stream.split();
    let (tx, mut rx) = mpsc::unbounded_channel::<Frame>();
    // everything the script has released by now goes out in one flush (a replier that answers in bursts: several
    // replies, duplicates and strays included, reach the requestor's reader in one read)
    let writer = tokio::spawn(async move {
        'outer: while let Some(f) = rx.recv().await {
            if write.feed(f).await.is_err() {
                break;
            }
            while let Ok(f2) = rx.try_recv() {
                if write.feed(f2).await.is_err() {
                    break 'outer;
                }
            }
            if write.flush().await.is_err() {
                break;
            }
        }
    });
    let t0 = Instant::now();
    let task = tokio::spawn(async move {
        let _w = writer;
        while let Some(Ok(frame)) = read.next().await {
            let Frame::Message(m) = frame else { continue };
            let headers = m.headers.clone();
            let mut body = m.message.clone();
            if let Some((_, d)) = &comp {
                body = match d.decompress(body) {
                    Ok(b) => b,
                    Err(_) => continue,
                };
            }
            let text = match StringCodec.decode(&mut BytesMut::from(&body[..])) {
                Ok(t) => t,
                Err(_) => continue,
            };
            // "<id>;mode=<m>;<filler>"
            let id = text.split(';').next().unwrap_or("").to_string();
            let mode = Mode::parse(text.split(';').nth(1).and_then(|s| s.strip_prefix("mode=")).unwrap_or("now"));
            log.lock().unwrap().received += 1;
            let make = |hdrs: Option<HashMap<String, String>>, text: &str| -> Frame {
                let mut b: Bytes = StringCodec.encode(format!("re:{}", text)).unwrap();
                if let Some((c, _)) = &comp {
                    b = c.compress(b).unwrap();
                }
                Frame::Message(MessagePayload { headers: hdrs, message: b })
            };
            let reply = make(headers.clone(), &text);
            let tx2 = tx.clone();
            let log2 = log.clone();
            match mode {
                Mode::Now => {
                    log2.lock().unwrap().prompt_sent.insert(id, t0.elapsed().as_millis());
                    log2.lock().unwrap().sent += 1;
                    let _ = tx2.send(reply);
                }
                Mode::Short => {
                    let d = 5 + (text.len() as u64 * 7) % (timeout_ms / 6).max(1);
                    tokio::spawn(async move {
                        tokio::time::sleep(Duration::from_millis(d)).await;
                        log2.lock().unwrap().sent += 1;
                        let _ = tx2.send(reply);
                    });
                }
                Mode::Late => {
                    let d = (timeout_ms * 8).max(2000);
                    tokio::spawn(async move {
                        tokio::time::sleep(Duration::from_millis(d)).await;
                        log2.lock().unwrap().sent += 1;
                        let _ = tx2.send(reply);
                    });
                }
                Mode::Late15 => {
                    let d = timeout_ms * 3 / 2;
                    tokio::spawn(async move {
                        tokio::time::sleep(Duration::from_millis(d)).await;
                        log2.lock().unwrap().sent += 1;
                        let _ = tx2.send(reply);
                    });
                }
                Mode::Never => {}
                Mode::Twice => {
                    log2.lock().unwrap().sent += 2;
                    let _ = tx2.send(reply.clone());
                    let _ = tx2.send(reply);
                }
                Mode::UnknownFirst => {
                    // same routing tag, but a request id nobody is waiting for; then the real reply
                    let mut h = headers.clone().unwrap_or_default();
                    h.insert("req_id".into(), "4000000000".into());
                    let bogus = make(Some(h), "bogus-for-unknown-request");
                    log2.lock().unwrap().sent += 2;
                    let _ = tx2.send(bogus);
                    let _ = tx2.send(reply);
                }
            }
        }
    });
    Ok((raw, task))
}

fn is_timeout(e: &SeliumError) -> bool {
    matches!(e, SeliumError::RequestTimeout)
}

struct Scenario {
    id: u64,
    compression: Option<String>,
    n_connections: usize,
    streams_per_connection: usize,
    clones_per_stream: usize,
    calls_per_task: usize,
    timeout_ms: u64,
}

async fn run_scenario(addr: SocketAddr, certs: Certs, sc: &Scenario, seed: u64) -> std::result::Result<(Vec<Call>, u64, u64), String> {
    let topic = unique_topic("c04", sc.id);
    let pair = sc.compression.as_deref().map(compression_pair);
    let log = Arc::new(Mutex::new(ReplierLog { received: 0, sent: 0, prompt_sent: HashMap::new() }));
    let (_raw, rep_task) = spawn_replier(addr, &certs, &topic, pair.clone(), sc.timeout_ms, log.clone()).await.map_err(|e| format!("raw replier: {e}"))?;
    let t0 = Instant::now();
    let mut tasks = vec![];
    let mut task_no = 0u64;
    for c in 0..sc.n_connections {
        let client = lib_client(&addr.to_string(), &certs, None).await.map_err(|e| format!("connect: {e}"))?;
        for s in 0..sc.streams_per_connection {
            let mut b = client.requestor(&topic).with_request_encoder(StringCodec);
            if let Some((cmp, _)) = &pair {
                b = b.with_request_compression(cmp.clone());
            }
            let mut b = b.with_reply_decoder(StringCodec);
            if let Some((_, d)) = &pair {
                b = b.with_reply_decompression(d.clone());
            }
            let b = b.with_request_timeout(sc.timeout_ms).map_err(|e| e.to_string())?;
            let mut requestor = b.open().await.map_err(|e| format!("open requestor: {e}"))?;
            // precondition: a sentinel call is answered (the replier is bound, this requestor is adopted)
            let mut ok = false;
            let est = Instant::now();
            let mut n = 0;
            while est.elapsed() < Duration::from_secs(20) {
                n += 1;
                match requestor.request(format!("sentinel-c{}s{}-{};mode=now;", c, s, n)).await {
                    Ok(v) if v.starts_with("re:sentinel") => {
                        ok = true;
                        break;
                    }
                    Ok(v) => return Err(format!("VIOLATION wrong-reply: sentinel call got {:?}", v)),
                    Err(_) => tokio::time::sleep(Duration::from_millis(50)).await,
                }
            }
            if !ok {
                return Err("precondition not reached: sentinel request never answered within 20 s".into());
            }
            for k in 0..sc.clones_per_stream {
                let mut rq = requestor.clone();
                let label = format!("conn{}/stream{}/clone{}", c, s, k);
                task_no += 1;
                let mut rng = Rng::new(crate::common::mix(seed, task_no));
                let calls = sc.calls_per_task;
                let tmo = sc.timeout_ms;
                tasks.push(tokio::spawn(async move {
                    let mut out = vec![];
                    for i in 0..calls {
                        let mode = match rng.below(20) {
                            0 => Mode::Never,
                            1 => Mode::Late,
                            2 | 3 => Mode::Twice,
                            4 | 5 => Mode::UnknownFirst,
                            6..=11 => Mode::Short,
                            _ => Mode::Now,
                        };
                        let id = format!("{}#{}", label, i);
                        let filler: String = (0..rng.below(40)).map(|_| (b'a' + rng.below(26) as u8) as char).collect();
                        let payload = format!("{};mode={};{}", id, mode.name(), filler);
                        let start = t0.elapsed().as_millis();
                        let fut = rq.request(payload.clone());
                        let r = match tokio::time::timeout(Duration::from_millis(tmo + 20_000), fut).await {
                            Ok(r) => r,
                            Err(_) => {
                                out.push(Call { id, mode, requestor: label.clone(), start_ms: start, end_ms: t0.elapsed().as_millis(), result: Err("HUNG: request() did not return within timeout + 20 s".into()), timed_out: false });
                                break;
                            }
                        };
                        let end = t0.elapsed().as_millis();
                        let (result, timed_out) = match r {
                            Ok(v) => (Ok(v), false),
                            Err(e) => {
                                let t = is_timeout(&e);
                                (Err(e.to_string()), t)
                            }
                        };
                        out.push(Call { id: payload, mode, requestor: label.clone(), start_ms: start, end_ms: end, result, timed_out });
                    }
                    out
                }));
            }
        }
    }
    let mut calls = vec![];
    for t in tasks {
        match t.await {
            Ok(v) => calls.extend(v),
            Err(e) => return Err(format!("harness task failed: {e}")),
        }
    }
    rep_task.abort();
    let l = log.lock().unwrap();
    Ok((calls, l.received, l.sent))
}

/// successive requestor generations on one topic: each sends a sentinel and then a request whose reply is
/// released 1.5 × timeout later, times out and goes away; the next generation's pending call (with the same
/// req_id, as every stream numbers its requests from 0) must never be completed by that stale reply
async fn run_generations(addr: SocketAddr, certs: Certs, id: u64, generations: usize, timeout_ms: u64) -> std::result::Result<(Vec<Call>, u64, u64), String> {
    let topic = unique_topic("c04g", id);
    let log = Arc::new(Mutex::new(ReplierLog { received: 0, sent: 0, prompt_sent: HashMap::new() }));
    let (_raw, rep_task) = spawn_replier(addr, &certs, &topic, None, timeout_ms, log.clone()).await.map_err(|e| format!("raw replier: {e}"))?;
    let t0 = Instant::now();
    let mut calls = vec![];
    let mut client = lib_client(&addr.to_string(), &certs, None).await.map_err(|e| format!("connect: {e}"))?;
    for g in 0..generations {
        if g % 3 == 2 {
            // every third generation arrives on a fresh connection
            client = lib_client(&addr.to_string(), &certs, None).await.map_err(|e| format!("connect: {e}"))?;
        }
        let mut rq = client
            .requestor(&topic)
            .with_request_encoder(StringCodec)
            .with_reply_decoder(StringCodec)
            .with_request_timeout(timeout_ms)
            .map_err(|e| e.to_string())?
            .open()
            .await
            .map_err(|e| format!("open requestor: {e}"))?;
        let label = format!("generation{}", g);
        for (k, mode) in [(0, Mode::Now), (1, Mode::Late15)] {
            let payload = format!("{}#{};mode={};", label, k, mode.name());
            let start = t0.elapsed().as_millis();
            let r = match tokio::time::timeout(Duration::from_millis(timeout_ms + 20_000), rq.request(payload.clone())).await {
                Ok(r) => r,
                Err(_) => {
                    calls.push(Call { id: payload, mode, requestor: label.clone(), start_ms: start, end_ms: t0.elapsed().as_millis(), result: Err("HUNG: request() did not return within timeout + 20 s".into()), timed_out: false });
                    break;
                }
            };
            let end = t0.elapsed().as_millis();
            let (result, timed_out) = match r {
                Ok(v) => (Ok(v), false),
                Err(e) => {
                    let t = is_timeout(&e);
                    (Err(e.to_string()), t)
                }
            };
            calls.push(Call { id: payload, mode, requestor: label.clone(), start_ms: start, end_ms: end, result, timed_out });
        }
        drop(rq);
    }
    rep_task.abort();
    let l = log.lock().unwrap();
    Ok((calls, l.received, l.sent))
}


/// the real `Replier` of the client library (handler with small random delays) serving several real requestors
/// and clones on separate connections: covers the replier-side echo of `req_id` and routing tag
async fn run_lib_replier(addr: SocketAddr, certs: Certs, id: u64, seed: u64, calls_per_task: usize, comp: Option<&'static str>) -> std::result::Result<(u64, Vec<String>, u64), String> {
    let topic = unique_topic("c04r", id);
    let pair = comp.map(compression_pair);
    let rc = lib_client(&addr.to_string(), &certs, None).await.map_err(|e| format!("connect: {e}"))?;
    let mut rb = rc.replier(&topic).with_request_decoder(StringCodec);
    if let Some((_, d)) = &pair {
        rb = rb.with_request_decompression(d.clone());
    }
    let mut rb = rb.with_reply_encoder(StringCodec);
    if let Some((c, _)) = &pair {
        rb = rb.with_reply_compression(c.clone());
    }
    let mut replier = rb
        .with_handler(|req: String| async move {
            // data-dependent delay: replies of different requestors interleave on the replier's stream
            let d = (req.len() as u64 * 37) % 7;
            if d > 0 {
                tokio::time::sleep(Duration::from_millis(d)).await;
            }
            Ok::<String, std::convert::Infallible>(format!("re:{}", req))
        })
        .open()
        .await
        .map_err(|e| format!("open replier: {e}"))?;
    let listen = tokio::spawn(async move { replier.listen().await });
    let mut tasks = vec![];
    let mut task_no = 0u64;
    for c in 0..3 {
        let client = lib_client(&addr.to_string(), &certs, None).await.map_err(|e| format!("connect: {e}"))?;
        for s in 0..2 {
            let mut qb = client.requestor(&topic).with_request_encoder(StringCodec);
            if let Some((cp, _)) = &pair {
                qb = qb.with_request_compression(cp.clone());
            }
            let mut qb = qb.with_reply_decoder(StringCodec);
            if let Some((_, d)) = &pair {
                qb = qb.with_reply_decompression(d.clone());
            }
            let mut rq = qb.with_request_timeout(4000u64).map_err(|e| e.to_string())?.open().await.map_err(|e| format!("open requestor: {e}"))?;
            let mut ok = false;
            for n in 0..40 {
                if let Ok(v) = rq.request(format!("sentinel-{}-{}-{}", c, s, n)).await {
                    if v.starts_with("re:sentinel") {
                        ok = true;
                        break;
                    }
                    return Err(format!("VIOLATION wrong-reply: sentinel got {:?}", v));
                }
                tokio::time::sleep(Duration::from_millis(50)).await;
            }
            if !ok {
                listen.abort();
                return Err("precondition not reached: library replier never answered a sentinel".into());
            }
            for k in 0..3 {
                let mut rq2 = rq.clone();
                task_no += 1;
                let mut rng = Rng::new(crate::common::mix(seed, task_no));
                tasks.push(tokio::spawn(async move {
                    let mut res = vec![];
                    for i in 0..calls_per_task {
                        let filler: String = (0..rng.below(30)).map(|_| (b'a' + rng.below(26) as u8) as char).collect();
                        let p = format!("c{}s{}k{}#{}|{}", c, s, k, i, filler);
                        let r = tokio::time::timeout(Duration::from_secs(30), rq2.request(p.clone())).await;
                        res.push((p, r.map(|x| x.map_err(|e| e.to_string())).map_err(|_| "no return within 30 s".to_string())));
                    }
                    res
                }));
            }
        }
    }
    let (mut ok, mut wrong, mut failed) = (0u64, vec![], 0u64);
    for t in tasks {
        for (p, r) in t.await.map_err(|e| format!("harness task: {e}"))? {
            match r {
                Ok(Ok(v)) if v == format!("re:{}", p) => ok += 1,
                Ok(Ok(v)) => wrong.push(format!("request {:?} returned Ok({:?})", p, v)),
                _ => failed += 1,
            }
        }
    }
    listen.abort();
    Ok((ok, wrong, failed))
}


/// clones taken from a requestor that has already been used (after k calls), then used concurrently with it
async fn run_clone_after_use(addr: SocketAddr, certs: Certs, id: u64, timeout_ms: u64) -> std::result::Result<(Vec<Call>, u64, u64), String> {
    let topic = unique_topic("c04u", id);
    let log = Arc::new(Mutex::new(ReplierLog { received: 0, sent: 0, prompt_sent: HashMap::new() }));
    let (_raw, rep_task) = spawn_replier(addr, &certs, &topic, None, timeout_ms, log.clone()).await.map_err(|e| format!("raw replier: {e}"))?;
    let client = lib_client(&addr.to_string(), &certs, None).await.map_err(|e| format!("connect: {e}"))?;
    let t0 = Instant::now();
    let mut calls = vec![];
    let mut handles: Vec<_> = vec![];
    let mut rq = client.requestor(&topic).with_request_encoder(StringCodec).with_reply_decoder(StringCodec).with_request_timeout(timeout_ms).map_err(|e| e.to_string())?.open().await.map_err(|e| format!("open requestor: {e}"))?;
    let mut est = false;
    for n in 0..40 {
        if let Ok(v) = rq.request(format!("sentinel-{};mode=now;", n)).await {
            if v.starts_with("re:sentinel") {
                est = true;
                break;
            }
        }
        tokio::time::sleep(Duration::from_millis(50)).await;
    }
    if !est {
        return Err("precondition not reached: sentinel never answered".into());
    }
    // use it for a while (k calls, k not a round number), clone, use both, clone again …
    for gen in 0..4usize {
        for i in 0..(3 + gen * 2) {
            let p = format!("warm{}#{};mode=now;", gen, i);
            let _ = rq.request(p).await;
        }
        handles.push(rq.clone());
    }
    handles.push(rq);
    let mut tasks = vec![];
    for (h, mut c) in handles.into_iter().enumerate() {
        tasks.push(tokio::spawn(async move {
            let mut out = vec![];
            for i in 0..12 {
                // short delays at the replier keep several calls of different handles in flight at once;
                // every fourth call is answered late (after the caller timed out)
                let mode = if i % 4 == 3 { Mode::Late15 } else { Mode::Short };
                let payload = format!("handle{}#{};mode={};", h, i, mode.name());
                let start = t0.elapsed().as_millis();
                let r = tokio::time::timeout(Duration::from_millis(timeout_ms + 20_000), c.request(payload.clone())).await;
                let end = t0.elapsed().as_millis();
                let (result, timed_out) = match r {
                    Ok(Ok(v)) => (Ok(v), false),
                    Ok(Err(e)) => {
                        let t = is_timeout(&e);
                        (Err(e.to_string()), t)
                    }
                    Err(_) => (Err("HUNG: request() did not return within timeout + 20 s".into()), false),
                };
                out.push(Call { id: payload, mode, requestor: format!("handle{}", h), start_ms: start, end_ms: end, result, timed_out });
            }
            out
        }));
    }
    for t in tasks {
        calls.extend(t.await.map_err(|e| format!("harness task: {e}"))?);
    }
    rep_task.abort();
    let l = log.lock().unwrap();
    Ok((calls, l.received, l.sent))
}

/// requestor churn on one topic: requestors (each on its own connection) join, one of them leaves abruptly with a
/// delayed request outstanding (its reply then hits a dead stream at the server), others join afterwards, and all
/// live requestors call in lock-step volleys — several of them are equally old, so their request ids coincide and
/// only the server's routing keeps their replies apart
async fn run_churn(addr: SocketAddr, certs: Certs, id: u64, seed: u64, timeout_ms: u64) -> std::result::Result<(Vec<Call>, u64, u64), String> {
    let topic = unique_topic("c04c", id);
    let mut rng = Rng::new(seed ^ id);
    let log = Arc::new(Mutex::new(ReplierLog { received: 0, sent: 0, prompt_sent: HashMap::new() }));
    let (_raw, rep_task) = spawn_replier(addr, &certs, &topic, None, timeout_ms, log.clone()).await.map_err(|e| format!("raw replier: {e}"))?;
    let t0 = Instant::now();
    let mut calls: Vec<Call> = vec![];
    type Rq = selium::keep_alive::reqrep::KeepAlive<selium::request_reply::Requestor<StringCodec, StringCodec, String, String>>;
    let mut live: Vec<(String, selium::Client, Rq)> = vec![];
    let mut next_name = 0usize;
    async fn join(addr: SocketAddr, certs: &Certs, topic: &str, timeout_ms: u64) -> std::result::Result<(selium::Client, Rq), String> {
        let client = lib_client(&addr.to_string(), certs, None).await.map_err(|e| format!("connect: {e}"))?;
        let rq = client.requestor(topic).with_request_encoder(StringCodec).with_reply_decoder(StringCodec).with_request_timeout(timeout_ms).map_err(|e| e.to_string())?.open().await.map_err(|e| format!("open requestor: {e}"))?;
        Ok((client, rq))
    }
    // sentinel: replier bound and routed
    {
        let (c, mut rq) = join(addr, &certs, &topic, timeout_ms).await?;
        let mut est = false;
        for n in 0..40 {
            if let Ok(v) = rq.request(format!("sentinel-{};mode=now;", n)).await {
                if v.starts_with("re:sentinel") {
                    est = true;
                    break;
                }
            }
            tokio::time::sleep(Duration::from_millis(50)).await;
        }
        if !est {
            return Err("precondition not reached: sentinel never answered".into());
        }
        live.push(("old0".into(), c, rq));
    }
    // a foreign requestor (hand-written wire peer) on the same topic whose requests already carry routing tags naming
    // other requestors: the server must tag every request itself, so none of its replies may reach anybody else
    let foreign_conn = raw_connect(addr, &certs).await.map_err(|e| format!("foreign peer: {e}"))?;
    let foreign = {
        use super::wire::*;
        let mut f = WireStream::register(&foreign_conn.conn, T_REG_REQ, &topic, Duration::from_secs(8)).await.map_err(|e| format!("foreign requestor: {e}"))?;
        tokio::spawn(async move {
            for i in 0..4000u32 {
                let hdr = vec![("cid".to_string(), (i % 9).to_string()), ("req_id".to_string(), ((i / 9) % 5).to_string())];
                if f.write(&enc_message(Some(&hdr), format!("foreign-{};mode=now;", i).as_bytes())).await.is_err() {
                    break;
                }
                // take (and ignore) whatever comes back
                while let Next::Frame(_) = f.next(Duration::from_millis(1)).await {}
                tokio::time::sleep(Duration::from_millis(3)).await;
            }
        })
    };
    let phases = 3 + rng.below(2) as usize;
    for phase in 0..phases {
        // 1–3 requestors join back to back
        for _ in 0..rng.range(1, 3) {
            let (c, rq) = join(addr, &certs, &topic, timeout_ms).await?;
            live.push((format!("rq{}", next_name), c, rq));
            next_name += 1;
        }
        // one live requestor (any position, the one before the newest most often) leaves abruptly with a request
        // outstanding whose reply the replier releases a little later
        if live.len() >= 2 {
            let k = if rng.pct(50) { live.len() - 2 } else { rng.usize(live.len()) };
            let (name, client, mut rq) = live.remove(k);
            let payload = format!("{}-last-words-p{};mode=short;{}", name, phase, "x".repeat(rng.below(40) as usize));
            let h = tokio::spawn(async move {
                let _ = rq.request(payload).await;
            });
            tokio::time::sleep(Duration::from_millis(3)).await;
            client.verif_close_connection().await;
            h.abort();
            drop(client);
            // let the delayed reply reach the server and hit the dead stream
            tokio::time::sleep(Duration::from_millis(timeout_ms / 6 + 60)).await;
        }
        // 0–2 more join after the departure
        for _ in 0..rng.below(3) {
            let (c, rq) = join(addr, &certs, &topic, timeout_ms).await?;
            live.push((format!("rq{}", next_name), c, rq));
            next_name += 1;
        }
        // volleys: every live requestor calls at the same time
        for volley in 0..4 {
            let mut tasks = vec![];
            let taken: Vec<(String, selium::Client, Rq)> = std::mem::take(&mut live);
            for (name, client, mut rq) in taken {
                let mode = if volley == 3 && rng.pct(30) { Mode::Never } else if rng.pct(70) { Mode::Short } else { Mode::Now };
                let payload = format!("{}-p{}v{};mode={};{}", name, phase, volley, mode.name(), "y".repeat(rng.below(30) as usize));
                tasks.push(tokio::spawn(async move {
                    let start = t0.elapsed().as_millis();
                    let r = tokio::time::timeout(Duration::from_millis(timeout_ms + 20_000), rq.request(payload.clone())).await;
                    let end = t0.elapsed().as_millis();
                    let (result, timed_out) = match r {
                        Ok(Ok(v)) => (Ok(v), false),
                        Ok(Err(e)) => {
                            let t = is_timeout(&e);
                            (Err(e.to_string()), t)
                        }
                        Err(_) => (Err("HUNG: request() did not return within timeout + 20 s".into()), false),
                    };
                    (Call { id: payload, mode, requestor: name.clone(), start_ms: start, end_ms: end, result, timed_out }, name, client, rq)
                }));
            }
            for t in tasks {
                let (call, name, client, rq) = t.await.map_err(|e| format!("harness task: {e}"))?;
                calls.push(call);
                live.push((name, client, rq));
            }
        }
    }
    foreign.abort();
    drop(foreign_conn);
    rep_task.abort();
    let l = log.lock().unwrap();
    Ok((calls, l.received, l.sent))
}

/// Clones of one requestor lose their connection; they come back one after the other (each on its own new stream),
/// and the first call of each after the outage is answered late (after its timeout) — so late replies of clones that
/// recovered earlier arrive while clones that recovered later have calls pending.
async fn run_clones_outage_late(addr: SocketAddr, certs: Certs, id: u64, timeout_ms: u64) -> std::result::Result<(Vec<Call>, u64, u64), String> {
    let topic = unique_topic("c04o", id);
    let log = Arc::new(Mutex::new(ReplierLog { received: 0, sent: 0, prompt_sent: HashMap::new() }));
    let (_raw, rep_task) = spawn_replier(addr, &certs, &topic, None, timeout_ms, log.clone()).await.map_err(|e| format!("raw replier: {e}"))?;
    let bo = selium::keep_alive::BackoffStrategy::constant().with_max_attempts(5).with_step(Duration::from_millis(20));
    let client = lib_client(&addr.to_string(), &certs, Some(bo)).await.map_err(|e| format!("connect: {e}"))?;
    let t0 = Instant::now();
    let mut calls = vec![];
    let mut rq = client.requestor(&topic).with_request_encoder(StringCodec).with_reply_decoder(StringCodec).with_request_timeout(timeout_ms).map_err(|e| e.to_string())?.open().await.map_err(|e| format!("open requestor: {e}"))?;
    let mut est = false;
    for n in 0..40 {
        if let Ok(v) = rq.request(format!("sentinel-{};mode=now;", n)).await {
            if v.starts_with("re:sentinel") {
                est = true;
                break;
            }
        }
        tokio::time::sleep(Duration::from_millis(50)).await;
    }
    if !est {
        return Err("precondition not reached: sentinel never answered".into());
    }
    let mut clones = vec![rq.clone(), rq.clone(), rq.clone(), rq];
    for outage in 0..3 {
        client.verif_close_connection().await;
        // one after the other: each clone's first call after the outage is answered at 1.5 × timeout
        for (k, c) in clones.iter_mut().enumerate() {
            for (j, mode) in [Mode::Late15, Mode::Now].into_iter().enumerate() {
                if j == 1 && k % 2 == 0 {
                    continue;
                }
                let payload = format!("outage{}-clone{}#{};mode={};", outage, k, j, mode.name());
                let start = t0.elapsed().as_millis();
                let r = tokio::time::timeout(Duration::from_millis(timeout_ms + 20_000), c.request(payload.clone())).await;
                let end = t0.elapsed().as_millis();
                let (result, timed_out) = match r {
                    Ok(Ok(v)) => (Ok(v), false),
                    Ok(Err(e)) => {
                        let t = is_timeout(&e);
                        (Err(e.to_string()), t)
                    }
                    Err(_) => (Err("HUNG: request() did not return within timeout + 20 s".into()), false),
                };
                // the call that meets the broken connection may fail in other ways than a timeout: recovery is C12's
                let mode = if matches!(result, Err(_)) && !timed_out { Mode::Late15 } else { mode };
                calls.push(Call { id: payload, mode, requestor: format!("clone{}", k), start_ms: start, end_ms: end, result: if matches!(mode, Mode::Late15) && !timed_out { match result { Ok(v) => Ok(v), Err(_) => Err("The request timed out (counted as such: connection-loss error on the first call after the cut)".into()) } } else { result }, timed_out: timed_out || matches!(mode, Mode::Late15) });
            }
        }
        // let the late replies drain before the next outage
        tokio::time::sleep(Duration::from_millis(timeout_ms * 2)).await;
    }
    rep_task.abort();
    let l = log.lock().unwrap();
    Ok((calls, l.received, l.sent))
}

/// The application abandons a call (drops the `request()` future: its own timeout, a `select!`, a cancelled task) after
/// the request went out and before the reply came back, then issues the next call on the same handle. The abandoned
/// call's reply arrives while that next call is waiting — and must not be handed to it.
async fn run_abandoned_calls(addr: SocketAddr, certs: Certs, id: u64, timeout_ms: u64) -> std::result::Result<(Vec<Call>, u64, u64), String> {
    let topic = unique_topic("c04a", id);
    let log = Arc::new(Mutex::new(ReplierLog { received: 0, sent: 0, prompt_sent: HashMap::new() }));
    let (_raw, rep_task) = spawn_replier(addr, &certs, &topic, None, timeout_ms, log.clone()).await.map_err(|e| format!("raw replier: {e}"))?;
    let client = lib_client(&addr.to_string(), &certs, None).await.map_err(|e| format!("connect: {e}"))?;
    let t0 = Instant::now();
    let mut calls = vec![];
    let mut rq = client.requestor(&topic).with_request_encoder(StringCodec).with_reply_decoder(StringCodec).with_request_timeout(timeout_ms).map_err(|e| e.to_string())?.open().await.map_err(|e| format!("open requestor: {e}"))?;
    let mut est = false;
    for n in 0..40 {
        if let Ok(v) = rq.request(format!("sentinel-{};mode=now;", n)).await {
            if v.starts_with("re:sentinel") {
                est = true;
                break;
            }
        }
        tokio::time::sleep(Duration::from_millis(50)).await;
    }
    if !est {
        return Err("precondition not reached: sentinel never answered".into());
    }
    let mut handles = vec![rq.clone(), rq];
    for round in 0..6 {
        for (h, c) in handles.iter_mut().enumerate() {
            // the scripted replier answers mode=short after 5 + (7·len mod timeout/6) ms: pad to the longest delay
            let mut a = format!("abandoned-r{}h{};mode=short;", round, h);
            let per = (timeout_ms / 6).max(1) as usize;
            while (a.len() * 7) % per < per - 8 && a.len() < 400 {
                a.push('p');
            }
            let abandon_after = 6 + (round as u64 % 3) * 4;
            let _ = tokio::time::timeout(Duration::from_millis(abandon_after), c.request(a)).await;
            // the next call on the same handle is never answered by the replier: it may only time out
            let payload = format!("after-abandon-r{}h{};mode=never;", round, h);
            let start = t0.elapsed().as_millis();
            let r = tokio::time::timeout(Duration::from_millis(timeout_ms + 20_000), c.request(payload.clone())).await;
            let end = t0.elapsed().as_millis();
            let (result, timed_out) = match r {
                Ok(Ok(v)) => (Ok(v), false),
                Ok(Err(e)) => {
                    let t = is_timeout(&e);
                    (Err(e.to_string()), t)
                }
                Err(_) => (Err("HUNG: request() did not return within timeout + 20 s".into()), false),
            };
            calls.push(Call { id: payload, mode: Mode::Never, requestor: format!("handle{}", h), start_ms: start, end_ms: end, result, timed_out });
            // and a normal call afterwards
            let payload = format!("normal-r{}h{};mode=now;", round, h);
            let start = t0.elapsed().as_millis();
            let r = tokio::time::timeout(Duration::from_millis(timeout_ms + 20_000), c.request(payload.clone())).await;
            let end = t0.elapsed().as_millis();
            let (result, timed_out) = match r {
                Ok(Ok(v)) => (Ok(v), false),
                Ok(Err(e)) => {
                    let t = is_timeout(&e);
                    (Err(e.to_string()), t)
                }
                Err(_) => (Err("HUNG: request() did not return within timeout + 20 s".into()), false),
            };
            calls.push(Call { id: payload, mode: Mode::Now, requestor: format!("handle{}", h), start_ms: start, end_ms: end, result, timed_out });
        }
    }
    rep_task.abort();
    let l = log.lock().unwrap();
    Ok((calls, l.received, l.sent))
}

/// child-process server (this binary in `--serve` mode, i.e. `Server::try_from(args)?.listen()` like main.rs)
struct ChildServer {
    child: std::process::Child,
    addr: SocketAddr,
}

impl ChildServer {
    async fn start(exe: &str, certs: &Certs, bind: &str, tag: &str) -> std::result::Result<ChildServer, String> {
        let addr_file = scratch_dir().join(format!("restart-addr-{}-{}", std::process::id(), tag));
        let _ = std::fs::remove_file(&addr_file);
        let child = std::process::Command::new(exe)
            .args(["--serve", "--certs", &certs.dir.to_string_lossy(), "--addr-file", &addr_file.to_string_lossy(), "--bind", bind])
            .stdout(std::process::Stdio::null())
            .stderr(std::process::Stdio::null())
            .spawn()
            .map_err(|e| format!("spawn server: {e}"))?;
        let t0 = Instant::now();
        loop {
            if let Ok(s) = std::fs::read_to_string(&addr_file) {
                if let Ok(a) = s.trim().parse::<SocketAddr>() {
                    let _ = std::fs::remove_file(&addr_file);
                    return Ok(ChildServer { child, addr: a });
                }
            }
            if t0.elapsed() > Duration::from_secs(20) {
                let mut c = child;
                let _ = c.kill();
                let _ = c.wait();
                return Err("server child did not report its address within 20 s".into());
            }
            tokio::time::sleep(Duration::from_millis(20)).await;
        }
    }
    /// SIGINT (graceful shutdown), wait for the exit
    async fn shutdown(mut self) -> bool {
        unsafe {
            libc::kill(self.child.id() as i32, libc::SIGINT);
        }
        let t0 = Instant::now();
        while t0.elapsed() < Duration::from_secs(30) {
            if let Ok(Some(_)) = self.child.try_wait() {
                return true;
            }
            tokio::time::sleep(Duration::from_millis(20)).await;
        }
        let _ = self.child.kill();
        let _ = self.child.wait();
        false
    }
    fn kill(mut self) {
        let _ = self.child.kill();
        let _ = self.child.wait();
    }
}

/// The server is restarted (graceful shutdown, new process on the same address) while the library Replier is busy in
/// its handler for requestor X. Afterwards new requestors call through the new server: whatever the replier does with
/// the reply it could not deliver, every call that returns Ok must return the reply to *its* request. (The new server
/// numbers its requestors from scratch, and every requestor numbers its requests from 0, so stale routing data of the
/// old server's time would match the wrong call.)
async fn run_server_restart(exe: &str, certs: &Certs, id: u64, kill_hard: bool) -> std::result::Result<Vec<Call>, String> {
    let topic = unique_topic("c04s", id);
    let s1 = ChildServer::start(exe, certs, "127.0.0.1:0", &format!("{}a", id)).await?;
    let addr = s1.addr;
    let bo = selium::keep_alive::BackoffStrategy::constant().with_max_attempts(40).with_step(Duration::from_millis(150));
    let crep = lib_client(&addr.to_string(), certs, Some(bo.clone())).await.map_err(|e| format!("connect: {e}"))?;
    let mut replier = crep
        .replier(&topic)
        .with_request_decoder(StringCodec)
        .with_reply_encoder(StringCodec)
        .with_handler(|req: String| async move {
            if req.starts_with("slow:") {
                tokio::time::sleep(Duration::from_millis(1200)).await;
            }
            Ok::<String, std::convert::Infallible>(format!("re:{}", req))
        })
        .open()
        .await
        .map_err(|e| format!("open replier: {e}"))?;
    let listen = tokio::spawn(async move { replier.listen().await });
    let t0 = Instant::now();
    let mut calls = vec![];
    let cx = lib_client(&addr.to_string(), certs, Some(bo.clone())).await.map_err(|e| format!("connect: {e}"))?;
    let mut x = cx.requestor(&topic).with_request_encoder(StringCodec).with_reply_decoder(StringCodec).with_request_timeout(3000u64).map_err(|e| e.to_string())?.open().await.map_err(|e| format!("open requestor: {e}"))?;
    // X's first calls: establishes the replier and advances nothing but X's own counter
    let mut est = false;
    for n in 0..40 {
        if let Ok(v) = x.request(format!("sentinel-{}", n)).await {
            if v == format!("re:sentinel-{}", n) {
                est = true;
                break;
            }
            listen.abort();
            s1.kill();
            return Err(format!("VIOLATION wrong-reply: sentinel got {:?}", v));
        }
        tokio::time::sleep(Duration::from_millis(50)).await;
    }
    if !est {
        listen.abort();
        s1.kill();
        return Err("precondition not reached: library replier never answered a sentinel".into());
    }
    // a fresh requestor X2 (request ids from 0) asks a slow question; the server goes away while the handler runs
    let cx2 = lib_client(&addr.to_string(), certs, Some(bo.clone())).await.map_err(|e| format!("connect: {e}"))?;
    let mut x2 = cx2.requestor(&topic).with_request_encoder(StringCodec).with_reply_decoder(StringCodec).with_request_timeout(3000u64).map_err(|e| e.to_string())?.open().await.map_err(|e| format!("open requestor: {e}"))?;
    let slow = tokio::spawn(async move {
        let start = t0.elapsed().as_millis();
        let r = tokio::time::timeout(Duration::from_secs(30), x2.request("slow:from-X2".to_string())).await;
        (start, t0.elapsed().as_millis(), r.map(|x| x.map_err(|e| (is_timeout(&e), e.to_string()))))
    });
    tokio::time::sleep(Duration::from_millis(300)).await;
    if kill_hard {
        s1.kill();
    } else if !s1.shutdown().await {
        listen.abort();
        return Err("the first server did not exit within 30 s of SIGINT".into());
    }
    let s2 = match ChildServer::start(exe, certs, &addr.to_string(), &format!("{}b", id)).await {
        Ok(s) => s,
        Err(e) => {
            listen.abort();
            return Err(format!("second server on the same address: {}", e));
        }
    };
    // new requestors on the new server, each calling from request id 0 on; several, so that one of them gets the routing
    // id the old server had given X2
    let mut tasks = vec![];
    for y in 0..3 {
        let (certs, topic) = (certs.clone(), topic.clone());
        tasks.push(tokio::spawn(async move {
            let mut out = vec![];
            let cy = match lib_client(&addr.to_string(), &certs, None).await {
                Ok(c) => c,
                Err(_) => return out,
            };
            let Ok(b) = cy.requestor(&topic).with_request_encoder(StringCodec).with_reply_decoder(StringCodec).with_request_timeout(2500u64) else { return out };
            let Ok(mut rq) = b.open().await else { return out };
            for k in 0..4 {
                let p = format!("from-Y{}#{}", y, k);
                let start = t0.elapsed().as_millis();
                let r = tokio::time::timeout(Duration::from_secs(30), rq.request(p.clone())).await;
                let end = t0.elapsed().as_millis();
                let (result, timed_out) = match r {
                    Ok(Ok(v)) => (Ok(v), false),
                    Ok(Err(e)) => (Err(e.to_string()), is_timeout(&e)),
                    Err(_) => (Err("HUNG: request() did not return within 30 s".into()), false),
                };
                out.push(Call { id: p, mode: Mode::Now, requestor: format!("Y{}", y), start_ms: start, end_ms: end, result, timed_out });
            }
            out
        }));
    }
    for t in tasks {
        calls.extend(t.await.map_err(|e| format!("harness task: {e}"))?);
    }
    if let Ok((start, end, r)) = slow.await {
        let (result, timed_out) = match r {
            Ok(Ok(v)) => (Ok(v), false),
            Ok(Err((to, e))) => (Err(e), to),
            Err(_) => (Err("HUNG: request() did not return within 30 s".into()), false),
        };
        calls.push(Call { id: "slow:from-X2".into(), mode: Mode::Now, requestor: "X2".into(), start_ms: start, end_ms: end, result, timed_out });
    }
    listen.abort();
    s2.kill();
    Ok(calls)
}

pub fn run(rep: &mut StageReport, tier: &str, seed: u64, exe: &str) {
    let thorough = tier == "thorough";
    let rt = runtime(8);
    let certs = match gen_certs() {
        Ok(c) => c,
        Err(e) => {
            rep.inconclusive(&format!("certificate generation failed: {}", e));
            return;
        }
    };
    let mut rng = Rng::new(seed ^ 0xC04);
    let mut scenarios = vec![];
    let comps = [None, Some("zstd"), Some("gzip"), Some("lz4"), Some("brotli-generic")];
    let n_sc = if thorough { 60 } else { 10 };
    for i in 0..n_sc {
        scenarios.push(Scenario {
            id: i as u64 + 1,
            compression: comps[i % comps.len()].map(|s| s.to_string()),
            n_connections: rng.range(1, 2) as usize,
            streams_per_connection: rng.range(1, 3) as usize,
            clones_per_stream: rng.range(1, 4) as usize,
            calls_per_task: if thorough { 40 } else { 14 },
            timeout_ms: *rng.pick(&[250u64, 400]),
        });
    }
    let (n_gen_scenarios, gens_per) = if thorough { (12usize, 40usize) } else { (3usize, 12usize) };
    let mark = panic_mark();
    let mut total_calls = 0u64;
    let mut prompt_timeouts = 0u64;
    let mut prompt_calls = 0u64;
    let mut by_mode: HashMap<&'static str, u64> = HashMap::new();
    let mut lib_replier_result: Option<(u64, Vec<String>, u64)> = None;
    let mut lib_replier_inconclusive: Option<String> = None;
    let mut clones_result: Option<(u64, Vec<String>, Vec<String>)> = None;
    let mut clones_inconclusive: Option<String> = None;
    let mut restart_calls: Vec<(u64, Vec<Call>)> = vec![];
    let mut restart_notes: Vec<String> = vec![];
    let results = rt.block_on(async {
        let server = match start_server(&certs) {
            Ok(s) => s,
            Err(e) => return vec![(0u64, Err(format!("server start failed: {e}")))],
        };
        let mut out = vec![];
        for sc in &scenarios {
            let r = tokio::time::timeout(Duration::from_secs(600), run_scenario(server.addr, certs.clone(), sc, crate::common::mix(seed, sc.id))).await;
            out.push((sc.id, match r {
                Ok(x) => x,
                Err(_) => Err("watchdog: scenario did not finish within 600 s".into()),
            }));
        }
        // clones that each re-established their own stream after a connection loss still share the request-id
        // counter and the pending-call map: concurrent calls must still get their own replies
        {
            let bo = selium::keep_alive::BackoffStrategy::constant().with_max_attempts(3).with_step(Duration::from_millis(10));
            let burst = if thorough { 40 } else { 24 };
            match tokio::time::timeout(Duration::from_secs(400), super::c12::requestor_clones_after_recovery(server.addr, &certs, bo, 1, 4, burst, 900)).await {
                Ok(Ok((ok, wrong, failed))) => clones_result = Some((ok, wrong, failed)),
                Ok(Err(e)) => clones_inconclusive = Some(e),
                Err(_) => clones_inconclusive = Some("watchdog: clones scenario did not finish in 400 s".into()),
            }
        }
        {
            let calls = if thorough { 150 } else { 25 };
            // plain, and with compression on both legs (requests compressed by the requestor and decompressed by the
            // replier, replies the other way round)
            let comps: &[Option<&'static str>] = if thorough { &[None, Some("zstd"), Some("gzip"), Some("lz4"), Some("brotli-generic"), Some("zlib")] } else { &[None, Some("zstd"), Some("lz4")] };
            for (ci, comp) in comps.iter().enumerate() {
                match tokio::time::timeout(Duration::from_secs(500), run_lib_replier(server.addr, certs.clone(), 800 + ci as u64, seed, if ci == 0 { calls } else { calls / 2 + 3 }, *comp)).await {
                    Ok(Ok(x)) => {
                        let acc = lib_replier_result.get_or_insert((0, vec![], 0));
                        acc.0 += x.0;
                        acc.1.extend(x.1);
                        acc.2 += x.2;
                    }
                    Ok(Err(e)) => lib_replier_inconclusive = Some(e),
                    Err(_) => lib_replier_inconclusive = Some("watchdog: library-replier scenario did not finish in 500 s".into()),
                }
            }
        }
        for g in 0..(if thorough { 6usize } else { 2 }) {
            let r = tokio::time::timeout(Duration::from_secs(600), run_clone_after_use(server.addr, certs.clone(), 2000 + g as u64, 400)).await;
            out.push((2000 + g as u64, match r {
                Ok(x) => x,
                Err(_) => Err("watchdog: clone-after-use scenario did not finish within 600 s".into()),
            }));
        }
        for g in 0..(if thorough { 6usize } else { 1 }) {
            let r = tokio::time::timeout(Duration::from_secs(600), run_abandoned_calls(server.addr, certs.clone(), 6000 + g as u64, 400)).await;
            out.push((6000 + g as u64, match r {
                Ok(x) => x,
                Err(_) => Err("watchdog: abandoned-calls scenario did not finish within 600 s".into()),
            }));
        }
        for g in 0..(if thorough { 10usize } else { 2 }) {
            let r = tokio::time::timeout(Duration::from_secs(600), run_clones_outage_late(server.addr, certs.clone(), 5000 + g as u64, 400)).await;
            out.push((5000 + g as u64, match r {
                Ok(x) => x,
                Err(_) => Err("watchdog: clones/outage/late-reply scenario did not finish within 600 s".into()),
            }));
        }
        for g in 0..(if thorough { 40usize } else { 8 }) {
            let r = tokio::time::timeout(Duration::from_secs(600), run_churn(server.addr, certs.clone(), 3000 + g as u64, seed, 400)).await;
            out.push((3000 + g as u64, match r {
                Ok(x) => x,
                Err(_) => Err("watchdog: churn scenario did not finish within 600 s".into()),
            }));
        }
        for g in 0..(if thorough { 6usize } else { 2 }) {
            let r = tokio::time::timeout(Duration::from_secs(200), run_server_restart(exe, &certs, 4000 + g as u64, g % 2 == 1)).await;
            match r {
                Ok(Ok(calls)) => restart_calls.push((4000 + g as u64, calls)),
                Ok(Err(e)) => restart_notes.push(e),
                Err(_) => restart_notes.push("watchdog: server-restart scenario did not finish within 200 s".into()),
            }
        }
        for g in 0..n_gen_scenarios {
            let tmo = if g % 2 == 0 { 300 } else { 500 };
            let r = tokio::time::timeout(Duration::from_secs(600), run_generations(server.addr, certs.clone(), 1000 + g as u64, gens_per, tmo)).await;
            out.push((1000 + g as u64, match r {
                Ok(x) => x,
                Err(_) => Err("watchdog: generations scenario did not finish within 600 s".into()),
            }));
        }
        server.stop();
        out
    });
    for (sid, r) in results {
        let sc = scenarios.iter().find(|s| s.id == sid);
        let (calls, received, sent) = match r {
            Ok(x) => x,
            Err(e) => {
                if let Some(v) = e.strip_prefix("VIOLATION wrong-reply: ") {
                    rep.violation(Violation { signature: "C04/reqrep-client/wrong-reply".into(), detail: v.to_string(), replay: String::new() });
                } else {
                    rep.inconclusive(&e);
                }
                continue;
            }
        };
        let timeout_ms = sc.map(|s| s.timeout_ms).unwrap_or(if sid >= 2000 { 400 } else if sid % 2 == 0 { 300 } else { 500 }) as u128; // (ids ≥ 2000: clone-after-use, churn, clones/outage scenarios, all with 400 ms)
        rep.count("requests_seen_by_scripted_replier", received);
        rep.count("replies_written_by_scripted_replier", sent);
        let mut sample_hist = vec![];
        let mut sc_prompt = 0u64;
        let mut sc_prompt_to = 0u64;
        for c in &calls {
            rep.evaluations += 1;
            total_calls += 1;
            *by_mode.entry(c.mode.name()).or_insert(0) += 1;
            let mut h = Hasher64::new();
            h.s(&c.id);
            h.u(sid);
            let took = c.end_ms.saturating_sub(c.start_ms);
            if sample_hist.len() < 10 {
                sample_hist.push(json!({"call": c.id.chars().take(48).collect::<String>(), "requestor": c.requestor, "t_call_ms": c.start_ms as u64, "t_return_ms": c.end_ms as u64,
                    "result": match &c.result { Ok(v) => format!("Ok({})", v.chars().take(40).collect::<String>()), Err(e) => format!("Err({})", e.chars().take(60).collect::<String>()) }}));
            }
            let mut viol: Option<(String, String)> = None;
            match &c.result {
                Ok(v) => {
                    if *v != format!("re:{}", c.id) {
                        viol = Some(("wrong-reply".into(), format!("request {:?} returned Ok with the reply {:?}", c.id, v)));
                    } else if matches!(c.mode, Mode::Never) {
                        viol = Some(("reply-from-nowhere".into(), format!("request {:?} was never answered by the replier yet returned Ok({:?})", c.id, v)));
                    } else if matches!(c.mode, Mode::Late15) {
                        // own reply released at 1.5 × timeout: accepting it needs a late timer, which a loaded
                        // machine can produce; counted, not a violation
                        rep.count("late15_own_reply_accepted(counted)", 1);
                    } else if matches!(c.mode, Mode::Late) {
                        viol = Some(("timeout-not-enforced".into(), format!("request {:?} was answered {} ms after it was received (timeout {} ms) yet returned Ok after {} ms", c.id, (timeout_ms * 8).max(2000), timeout_ms, took)));
                    }
                }
                Err(e) if e.starts_with("HUNG") => {
                    viol = Some(("request-hung".into(), format!("request {:?} (mode {}) neither returned a reply nor a timeout error: {}", c.id, c.mode.name(), e)));
                }
                Err(e) => {
                    if matches!(c.mode, Mode::Never | Mode::Late | Mode::Late15) {
                        if !c.timed_out {
                            viol = Some(("wrong-error".into(), format!("unanswered request {:?} failed with {:?} instead of the timeout error", c.id, e)));
                        } else if took > timeout_ms + 15_000 {
                            viol = Some(("timeout-late".into(), format!("unanswered request {:?} timed out only after {} ms (timeout {} ms)", c.id, took, timeout_ms)));
                        }
                    } else if c.timed_out {
                        sc_prompt_to += 1;
                    } else {
                        viol = Some(("unexpected-error".into(), format!("answered request {:?} failed with {:?}", c.id, e)));
                    }
                }
            }
            if !matches!(c.mode, Mode::Never | Mode::Late | Mode::Late15) {
                sc_prompt += 1;
            }
            match viol {
                None => {
                    rep.distinct.insert(h.0);
                }
                Some((sig, detail)) => {
                    let signature = format!("C04/reqrep-client/{}", sig);
                    let already = rep.violations.iter().filter(|v| v.signature == signature).count();
                    let replay = if already < 2 {
                        write_replay("C04", &sig, sid, json!({"property": "C04", "detail": detail, "scenario": sid, "history": calls.iter().take(60).map(|c| json!({"call": c.id, "requestor": c.requestor, "t_call_ms": c.start_ms as u64, "t_return_ms": c.end_ms as u64, "result": format!("{:?}", c.result)})).collect::<Vec<_>>()}))
                    } else {
                        String::new()
                    };
                    rep.violation(Violation { signature, detail, replay });
                }
            }
        }
        prompt_calls += sc_prompt;
        prompt_timeouts += sc_prompt_to;
        // promptly answered calls that nevertheless timed out: counted; systematic loss is a violation
        if sc_prompt >= 10 && sc_prompt_to * 10 >= sc_prompt * 3 {
            rep.violation(Violation {
                signature: "C04/reqrep-client/answered-requests-time-out".into(),
                detail: format!("scenario {}: {} of {} promptly answered requests failed with a timeout although the scripted replier wrote their replies immediately", sid, sc_prompt_to, sc_prompt),
                replay: String::new(),
            });
        }
        if let Some(sc) = sc {
            rep.sample(json!({"scenario": {"connections": sc.n_connections, "streams_per_connection": sc.streams_per_connection, "clones_per_stream": sc.clones_per_stream, "timeout_ms": sc.timeout_ms, "compression": sc.compression}, "history_excerpt": sample_hist}));
        }
    }
    // server restarts: the only thing judged is that an Ok carries the caller's own reply (failed calls are C12's)
    for note in restart_notes {
        if let Some(v) = note.strip_prefix("VIOLATION wrong-reply: ") {
            rep.violation(Violation { signature: "C04/reqrep-client/wrong-reply/server-restart".into(), detail: v.to_string(), replay: String::new() });
        } else {
            rep.inconclusive(&note);
        }
    }
    for (sid, calls) in restart_calls {
        let mut oks = 0u64;
        for c in &calls {
            rep.evaluations += 1;
            match &c.result {
                Ok(v) if *v == format!("re:{}", c.id) => {
                    oks += 1;
                    rep.distinct.insert(crate::common::mix(sid, crate::common::fnv(c.id.as_bytes())));
                }
                Ok(v) => {
                    let detail = format!(
                        "after the server was restarted on the same address while the library replier was busy, request {:?} of {} returned Ok with {:?}; history: {:?}",
                        c.id,
                        c.requestor,
                        v,
                        calls.iter().map(|c| format!("{}:{:?}", c.id, c.result)).collect::<Vec<_>>()
                    );
                    let replay = write_replay("C04", "wrong-reply-server-restart", sid, json!({"property": "C04", "detail": detail}));
                    rep.violation(Violation { signature: "C04/reqrep-client/wrong-reply/server-restart".into(), detail, replay });
                }
                Err(e) if e.starts_with("HUNG") => {
                    rep.violation(Violation { signature: "C04/reqrep-client/request-hung/server-restart".into(), detail: format!("request {:?}: {}", c.id, e), replay: String::new() });
                }
                Err(_) => {
                    rep.count("calls_across_server_restart/failed(counted)", 1);
                    rep.distinct.insert(crate::common::mix(sid, crate::common::fnv(c.id.as_bytes())));
                }
            }
        }
        rep.count("calls_across_server_restart/own_reply", oks);
    }
    match lib_replier_inconclusive {
        Some(e) if e.starts_with("VIOLATION wrong-reply: ") => rep.violation(Violation { signature: "C04/reqrep-client/wrong-reply/library-replier".into(), detail: e, replay: String::new() }),
        Some(e) => rep.inconclusive(&e),
        None => {}
    }
    if let Some((ok, wrong, failed)) = lib_replier_result {
        rep.evaluations += ok + wrong.len() as u64 + failed;
        for i in 0..ok {
            rep.distinct.insert(crate::common::mix(0xC104E6, i));
        }
        rep.count("calls_against_library_replier/own_reply", ok);
        rep.count("calls_against_library_replier/failed(counted)", failed);
        if let Some(w) = wrong.first() {
            rep.violation(Violation {
                signature: "C04/reqrep-client/wrong-reply/library-replier".into(),
                detail: format!("{} concurrent calls served by the client library's Replier returned Ok with another call's reply, e.g. {}", wrong.len(), w),
                replay: String::new(),
            });
        }
        if failed * 3 > ok + failed {
            rep.violation(Violation {
                signature: "C04/reqrep-client/answered-requests-time-out/library-replier".into(),
                detail: format!("{} of {} calls served by the client library's Replier (which answers within 7 ms) failed", failed, ok + failed),
                replay: String::new(),
            });
        }
    }
    if let Some(why) = clones_inconclusive {
        rep.inconclusive(&why);
    }
    if let Some((ok, wrong, failed)) = clones_result {
        rep.evaluations += ok + wrong.len() as u64 + failed.len() as u64;
        for i in 0..ok {
            rep.distinct.insert(crate::common::mix(0xC104E5, i));
        }
        rep.count("calls_on_recovered_clones/own_reply", ok);
        rep.count("calls_on_recovered_clones/failed(counted: recovery is C12's business)", failed.len() as u64);
        if let Some(w) = wrong.first() {
            rep.violation(Violation {
                signature: "C04/reqrep-client/wrong-reply/recovered-clones".into(),
                detail: format!("{} calls on requestor clones that had each re-established their stream returned Ok with another call's reply, e.g. {}", wrong.len(), w),
                replay: String::new(),
            });
        }
    }
    for p in repo_panics_since(mark) {
        rep.violation(Violation { signature: format!("C04/reqrep-client/panic/{}", crate::routersim::exec::normalise_location(&p.location)), detail: format!("panic in thread {} at {}: {}", p.thread, p.location, p.message), replay: String::new() });
    }
    rep.count("calls", total_calls);
    rep.count("promptly_answered_calls", prompt_calls);
    rep.count("promptly_answered_calls_that_timed_out(counted, not a violation)", prompt_timeouts);
    for (k, v) in by_mode {
        rep.count(&format!("calls/mode={}", k), v);
    }
    let _: Value = json!(null);
    rep.rule = "one evaluation = one request() call recorded at the client boundary (call time, return time, result) against a scripted raw replier that answers now / after a short delay (replies overtake each other) / long after the timeout / never / twice / after a reply with an unknown req_id; concurrent calls over clones, separate requestor streams and separate connections; precondition (replier bound, requestor adopted) established by a sentinel call; distinct = distinct call".into();
    rep.assumptions.push("a promptly answered call that times out on a loaded machine is counted, not a violation, unless ≥ 30 % of a scenario's answered calls do so".into());
}

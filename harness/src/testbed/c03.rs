//! C03 — end-to-end pub/sub fidelity for every client configuration (codec × compression ×
//! batching × message count × payload size) over a real loopback QUIC server.

use super::*;
use crate::common::{write_replay, Hasher64, Rng, StageReport, Violation};
use bytes::Bytes;
use selium::batching::BatchConfig;
use selium::prelude::*;
use selium::std::codecs::{BincodeCodec, BytesCodec, StringCodec};
use selium::std::traits::codec::{MessageDecoder, MessageEncoder};
use selium::std::traits::compression::{Compress, Decompress};
use serde::{Deserialize, Serialize};
use serde_json::{json, Value};
use std::fmt::Debug;
use std::time::Instant;

#[derive(Clone)]
pub struct DynComp(pub Arc<dyn Compress + Send + Sync>);
impl Compress for DynComp {
    fn compress(&self, input: Bytes) -> anyhow::Result<Bytes> {
        self.0.compress(input)
    }
}
#[derive(Clone)]
pub struct DynDecomp(pub Arc<dyn Decompress + Send + Sync>);
impl Decompress for DynDecomp {
    fn decompress(&self, input: Bytes) -> anyhow::Result<Bytes> {
        self.0.decompress(input)
    }
}

#[derive(Clone, Debug, PartialEq, Serialize, Deserialize)]
pub struct Rec {
    pub id: u64,
    pub text: String,
    pub blob: Vec<u8>,
}

#[derive(Clone, Debug)]
pub struct Cfg {
    pub codec: &'static str,
    pub compression: Option<String>,
    pub batch: Option<(u32, u64)>, // (size, interval ms)
    pub count: usize,
    pub payload: usize,
    /// explicit per-message payload sizes (mixed-size configurations); overrides count/payload
    pub sizes: Option<Vec<usize>>,
    /// highly compressible payloads (a batch may then decompress to several MiB while its frame is tiny)
    pub compressible: bool,
    /// payloads that are themselves compressed streams (an application forwarding data it compressed already), of
    /// every algorithm, plus short records that merely start with a compressed-stream magic number
    pub precompressed: bool,
    pub id: u64,
}

impl Cfg {
    fn json(&self) -> Value {
        json!({"codec": self.codec, "compression": self.compression, "batching": self.batch.map(|(s, i)| json!({"size": s, "interval_ms": i})),
               "messages": self.count, "payload_bytes": self.payload, "payload_sizes": self.sizes, "compressible_payloads": self.compressible, "payloads_are_compressed_streams": self.precompressed})
    }
}

pub trait ItemKind: Clone + PartialEq + Debug + Send + Unpin + 'static {
    fn make(i: u64, size: usize, rng: &mut Rng) -> Self;
    /// same, but highly repetitive content
    fn make_compressible(i: u64, size: usize) -> Self;
    /// the item whose *encoding* is exactly these bytes, for codecs that can express that (bytes codec)
    fn from_raw(_bytes: Vec<u8>) -> Option<Self> {
        None
    }
    fn sentinel(k: u64) -> Self;
    fn is_sentinel(&self) -> Option<u64>;
    fn brief(&self) -> String;
}

impl ItemKind for String {
    fn make(i: u64, size: usize, rng: &mut Rng) -> Self {
        // every 5th item starts (and every 7th ends) with a character text code likes to treat specially
        let lead = if i % 5 == 4 { *rng.pick(&["\u{feff}", "\u{fffe}", " ", "\n", "\u{0}", "\u{301}"]) } else { "" };
        let mut s = format!("{}m{:06}|", lead, i);
        while s.len() < size {
            s.push((b'a' + rng.below(26) as u8) as char);
        }
        s
    }
    fn make_compressible(i: u64, size: usize) -> Self {
        let mut s = format!("m{:06}|", i);
        let pat = ["selium ", "abcabc", "0000000000"][(i % 3) as usize];
        while s.len() < size {
            s.push_str(pat);
        }
        s
    }
    fn sentinel(k: u64) -> Self {
        format!("\u{1}SENTINEL{}", k)
    }
    fn is_sentinel(&self) -> Option<u64> {
        self.strip_prefix("\u{1}SENTINEL").and_then(|r| r.parse().ok())
    }
    fn brief(&self) -> String {
        self.chars().take(12).collect()
    }
}

impl ItemKind for Vec<u8> {
    fn from_raw(bytes: Vec<u8>) -> Option<Self> {
        Some(bytes)
    }
    fn make(i: u64, size: usize, rng: &mut Rng) -> Self {
        let mut v = format!("m{:06}|", i).into_bytes();
        if size > v.len() {
            let n = size - v.len();
            v.extend(rng.bytes(n));
        }
        v
    }
    fn make_compressible(i: u64, size: usize) -> Self {
        let mut v = format!("m{:06}|", i).into_bytes();
        if size > v.len() {
            v.resize(size, (i % 251) as u8);
        }
        v
    }
    fn sentinel(k: u64) -> Self {
        let mut v = vec![0xFF, b'S'];
        v.extend_from_slice(&k.to_be_bytes());
        v
    }
    fn is_sentinel(&self) -> Option<u64> {
        if self.len() == 10 && self[0] == 0xFF && self[1] == b'S' {
            Some(u64::from_be_bytes(self[2..10].try_into().unwrap()))
        } else {
            None
        }
    }
    fn brief(&self) -> String {
        String::from_utf8_lossy(&self[..self.len().min(8)]).to_string()
    }
}

impl ItemKind for Rec {
    fn make(i: u64, size: usize, rng: &mut Rng) -> Self {
        Rec { id: i, text: format!("m{:06}", i), blob: rng.bytes(size.saturating_sub(30)) }
    }
    fn make_compressible(i: u64, size: usize) -> Self {
        Rec { id: i, text: format!("m{:06}", i), blob: vec![(i % 7) as u8; size.saturating_sub(30)] }
    }
    fn sentinel(k: u64) -> Self {
        Rec { id: u64::MAX - k, text: "SENTINEL".into(), blob: vec![] }
    }
    fn is_sentinel(&self) -> Option<u64> {
        if self.text == "SENTINEL" {
            Some(u64::MAX - self.id)
        } else {
            None
        }
    }
    fn brief(&self) -> String {
        format!("Rec#{}", self.id)
    }
}

pub enum Outcome {
    Held { delivered: usize },
    Violated { sig: String, detail: String },
    Inconclusive(String),
}

pub fn compression_pair(name: &str) -> (DynComp, DynDecomp) {
    use selium::std::compression::brotli::{BrotliComp, BrotliDecomp};
    use selium::std::compression::deflate::{DeflateComp, DeflateDecomp};
    use selium::std::compression::lz4::{Lz4Comp, Lz4Decomp};
    use selium::std::compression::zstd::{ZstdComp, ZstdDecomp};
    use selium::std::traits::compression::CompressionLevel;
    match name {
        "gzip" => (DynComp(Arc::new(DeflateComp::gzip())), DynDecomp(Arc::new(DeflateDecomp::gzip()))),
        "gzip-fastest" => (DynComp(Arc::new(DeflateComp::gzip().fastest())), DynDecomp(Arc::new(DeflateDecomp::gzip()))),
        "zlib" => (DynComp(Arc::new(DeflateComp::zlib())), DynDecomp(Arc::new(DeflateDecomp::zlib()))),
        "zlib-9" => (DynComp(Arc::new(DeflateComp::zlib().level(9))), DynDecomp(Arc::new(DeflateDecomp::zlib()))),
        "zstd" => (DynComp(Arc::new(ZstdComp::new())), DynDecomp(Arc::new(ZstdDecomp))),
        "zstd-fastest" => (DynComp(Arc::new(ZstdComp::new().fastest())), DynDecomp(Arc::new(ZstdDecomp))),
        "lz4" => (DynComp(Arc::new(Lz4Comp)), DynDecomp(Arc::new(Lz4Decomp))),
        "brotli-generic" => (DynComp(Arc::new(BrotliComp::generic().fastest())), DynDecomp(Arc::new(BrotliDecomp))),
        "brotli-text" => (DynComp(Arc::new(BrotliComp::text().balanced())), DynDecomp(Arc::new(BrotliDecomp))),
        "brotli-font" => (DynComp(Arc::new(BrotliComp::font().level(3))), DynDecomp(Arc::new(BrotliDecomp))),
        _ => panic!("unknown compression {}", name),
    }
}

async fn run_cfg<E, D, T>(addr: String, certs: Certs, cfg: Cfg, enc: E, dec: D, seed: u64) -> Outcome
where
    E: MessageEncoder<T> + Clone + Send + Unpin + 'static,
    D: MessageDecoder<T> + Send + Unpin + 'static,
    T: ItemKind,
{
    let mut rng = Rng::new(seed);
    let topic = unique_topic("c03", cfg.id);
    let mk = |what: &str, e: String| Outcome::Inconclusive(format!("{}: {}", what, e));
    let sub_client = match lib_client(&addr, &certs, None).await {
        Ok(c) => c,
        Err(e) => return mk("connect subscriber client", e.to_string()),
    };
    let pub_client = match lib_client(&addr, &certs, None).await {
        Ok(c) => c,
        Err(e) => return mk("connect publisher client", e.to_string()),
    };
    let pair = cfg.compression.as_deref().map(compression_pair);
    // subscriber
    let mut sb = sub_client.subscriber(&topic).with_decoder(dec);
    if let Some((_, d)) = &pair {
        sb = sb.with_decompression(d.clone());
    }
    let mut subscriber = match sb.open().await {
        Ok(s) => s,
        Err(e) => return mk("open subscriber", e.to_string()),
    };
    // auxiliary unbatched publisher with the same codec/compression: sentinels and fences
    let mut ab = pub_client.publisher(&topic).with_encoder(enc.clone());
    if let Some((c, _)) = &pair {
        ab = ab.with_compression(c.clone());
    }
    let mut aux = match ab.open().await {
        Ok(p) => p,
        Err(e) => return mk("open auxiliary publisher", e.to_string()),
    };
    // establish that the subscriber's registration took effect
    let t0 = Instant::now();
    let mut k = 0u64;
    let mut established = false;
    while t0.elapsed() < Duration::from_secs(15) {
        if aux.send(T::sentinel(k)).await.is_err() {
            return mk("auxiliary publisher send", "error".into());
        }
        k += 1;
        match tokio::time::timeout(Duration::from_millis(200), subscriber.next()).await {
            Ok(Some(Ok(it))) if it.is_sentinel().is_some() => {
                established = true;
                break;
            }
            Ok(Some(Ok(_))) => {}
            Ok(Some(Err(e))) => return mk("subscriber error while establishing", e.to_string()),
            Ok(None) => return mk("subscriber ended while establishing", String::new()),
            Err(_) => {}
        }
    }
    if !established {
        return Outcome::Inconclusive("precondition not reached: no sentinel arrived at the subscriber within 15 s".into());
    }
    // main publisher under test
    let mut pb = pub_client.publisher(&topic).with_encoder(enc.clone());
    if let Some((c, _)) = &pair {
        pb = pb.with_compression(c.clone());
    }
    if let Some((size, interval)) = cfg.batch {
        pb = pb.with_batching(BatchConfig::new(size, Duration::from_millis(interval)));
    }
    let mut publisher = match pb.open().await {
        Ok(p) => p,
        Err(e) => return mk("open publisher", e.to_string()),
    };
    let trace = std::env::var("VERIF_C03_TRACE").is_ok();
    // the publisher runs as its own task while the subscriber is being drained: with several MB in flight the
    // subscriber's flow-control window is what lets finish() complete (reading only afterwards would deadlock the harness)
    let items: Vec<T> = (0..cfg.count)
        .map(|i| {
            if cfg.precompressed {
                let algo = ["lz4", "zstd", "gzip", "zlib", "brotli-generic"][i % 5];
                use selium::std::traits::compression::Compress;
                let inner = format!("precompressed item {} {}", i, "lorem ipsum ".repeat(40 + i * 13)).into_bytes();
                let mut raw = compression_pair(algo).0.compress(bytes::Bytes::from(inner)).map(|b| b.to_vec()).unwrap_or_default();
                if i % 7 == 6 {
                    // a short incompressible record that merely starts with the magic number
                    raw.truncate(4);
                    raw.extend(rng.bytes(44));
                }
                if let Some(t) = T::from_raw(raw) {
                    return t;
                }
            }
            let size = cfg.sizes.as_ref().map_or(cfg.payload, |v| v[i]);
            if cfg.compressible { T::make_compressible(i as u64, size) } else { T::make(i as u64, size, &mut rng) }
        })
        .collect();
    let pauses: Vec<bool> = (0..cfg.count).map(|_| cfg.batch.map_or(false, |(_, iv)| iv > 0 && iv <= 50) && rng.pct(20)).collect();
    let pause_ms = cfg.batch.map_or(0, |b| b.1 + 1);
    let mut pub_task = tokio::spawn(async move {
        let mut sent: Vec<T> = vec![];
        for (i, item) in items.into_iter().enumerate() {
            if trace {
                eprintln!("[c03 trace] sending item {}", i);
            }
            match publisher.send(item.clone()).await {
                Ok(()) => sent.push(item),
                Err(e) => return Err(Outcome::Violated { sig: "send-error".into(), detail: format!("send() of item {} failed on a healthy connection: {}", i, e) }),
            }
            if pauses[i] {
                tokio::time::sleep(Duration::from_millis(pause_ms)).await;
            }
        }
        if trace {
            eprintln!("[c03 trace] all sends returned; finish()");
        }
        if let Err(e) = publisher.finish().await {
            return Err(Outcome::Violated { sig: "finish-error".into(), detail: format!("finish() failed on a healthy connection: {}", e) });
        }
        if trace {
            eprintln!("[c03 trace] finish() returned");
        }
        Ok(sent)
    });
    let mut got: Vec<T> = vec![];
    let mut errors: Vec<String> = vec![];
    let sent: Vec<T> = loop {
        tokio::select! {
            r = &mut pub_task => {
                match r {
                    Ok(Ok(sent)) => break sent,
                    Ok(Err(o)) => return o,
                    Err(e) => return mk("publisher task", e.to_string()),
                }
            }
            x = subscriber.next(), if errors.len() <= 20 => {
                match x {
                    Some(Ok(it)) => {
                        if it.is_sentinel().is_none() {
                            got.push(it);
                        }
                    }
                    Some(Err(e)) => errors.push(e.to_string()),
                    None => {
                        errors.push("subscriber stream ended".into());
                        pub_task.abort();
                        return Outcome::Violated { sig: "subscriber-error/ended".into(), detail: "the subscriber's stream ended while the publisher was still publishing".into() };
                    }
                }
            }
        }
    };
    let finished_at = Instant::now();
    // collect; fences are numbered from `k` on and are all sent after finish() returned
    let fence_base = k;
    let mut fences_seen = 0u64;
    let deadline = Instant::now() + Duration::from_secs(40);
    loop {
        if aux.send(T::sentinel(k)).await.is_err() {
            return mk("auxiliary publisher send (fence)", "error".into());
        }
        k += 1;
        // drain whatever is available
        loop {
            match tokio::time::timeout(Duration::from_millis(if got.len() < sent.len() { 40 } else { 5 }), subscriber.next()).await {
                Ok(Some(Ok(it))) => match it.is_sentinel() {
                    Some(n) if n >= fence_base => fences_seen += 1,
                    Some(_) => {}
                    None => got.push(it),
                },
                Ok(Some(Err(e))) => {
                    errors.push(e.to_string());
                    if errors.len() > 20 {
                        break;
                    }
                }
                Ok(None) => {
                    errors.push("subscriber stream ended".into());
                    break;
                }
                Err(_) => break,
            }
        }
        if trace {
            eprintln!("[c03 trace] fence {}: got {} of {} items, {} fences seen, {} errors", k, got.len(), sent.len(), fences_seen, errors.len());
        }
        let complete = got.len() >= sent.len();
        if fences_seen >= 25 && (complete || finished_at.elapsed() > Duration::from_secs(3)) {
            break;
        }
        if errors.len() > 20 || errors.iter().any(|e| e.contains("ended")) {
            break;
        }
        if Instant::now() > deadline {
            if fences_seen < 25 {
                return Outcome::Inconclusive(format!("watchdog: only {} fences came back within 40 s", fences_seen));
            }
            break;
        }
    }
    let _ = aux.finish().await;
    if got == sent && errors.is_empty() {
        return Outcome::Held { delivered: got.len() };
    }
    let batched = if cfg.batch.is_some() { "batched" } else { "unbatched" };
    let brief = |v: &Vec<T>| v.iter().take(12).map(|x| x.brief()).collect::<Vec<_>>();
    if !errors.is_empty() {
        return Outcome::Violated { sig: format!("subscriber-error/{}", batched), detail: format!("subscriber yielded errors {:?}; sent {} got {}", &errors[..errors.len().min(3)], sent.len(), got.len()) };
    }
    let same_multiset = {
        let mut a: Vec<String> = sent.iter().map(|x| format!("{:?}", x)).collect();
        let mut b: Vec<String> = got.iter().map(|x| format!("{:?}", x)).collect();
        a.sort();
        b.sort();
        a == b
    };
    let (kind, what) = if same_multiset {
        ("reordered", "the same items in a different order")
    } else if got.len() < sent.len() && got.iter().all(|g| sent.contains(g)) {
        if got[..] == sent[..got.len()] {
            ("lost-tail", "a prefix only: the last items accepted before finish() never arrived")
        } else {
            ("lost", "fewer items than were accepted")
        }
    } else if got.len() > sent.len() && sent.iter().all(|s| got.contains(s)) {
        ("duplicated", "more items than were accepted")
    } else {
        ("altered", "items that differ from those accepted")
    };
    Outcome::Violated {
        sig: format!("{}/{}", kind, batched),
        detail: format!(
            "subscriber yielded {}: accepted {} items {:?}…, yielded {} items {:?}… ({} fences sent after finish() came back)",
            what,
            sent.len(),
            brief(&sent),
            got.len(),
            brief(&got),
            fences_seen
        ),
    }
}


/// `Publisher::duplicate()` taken in the middle of a stream (with a partially filled batch, if batching is on):
/// the subscriber must yield every accepted item of both publishers exactly once, each publisher's in order.
async fn run_duplicate(addr: String, certs: Certs, id: u64, batch: Option<(u32, u64)>, comp: Option<&'static str>, before: usize) -> Outcome {
    let topic = unique_topic("c03d", id);
    let mk = |what: &str, e: String| Outcome::Inconclusive(format!("{}: {}", what, e));
    let sub_client = match lib_client(&addr, &certs, None).await {
        Ok(c) => c,
        Err(e) => return mk("connect", e.to_string()),
    };
    let pub_client = match lib_client(&addr, &certs, None).await {
        Ok(c) => c,
        Err(e) => return mk("connect", e.to_string()),
    };
    let pair = comp.map(compression_pair);
    let mut sb = sub_client.subscriber(&topic).with_decoder(StringCodec);
    if let Some((_, d)) = &pair {
        sb = sb.with_decompression(d.clone());
    }
    let mut subscriber = match sb.open().await {
        Ok(s) => s,
        Err(e) => return mk("open subscriber", e.to_string()),
    };
    let mut ab = pub_client.publisher(&topic).with_encoder(StringCodec);
    if let Some((c, _)) = &pair {
        ab = ab.with_compression(c.clone());
    }
    let mut aux = match ab.open().await {
        Ok(p) => p,
        Err(e) => return mk("open auxiliary publisher", e.to_string()),
    };
    let mut k = 0u64;
    let t0 = Instant::now();
    let mut established = false;
    while t0.elapsed() < Duration::from_secs(15) {
        if aux.send(String::sentinel(k)).await.is_err() {
            return mk("aux send", "error".into());
        }
        k += 1;
        if let Ok(Some(Ok(it))) = tokio::time::timeout(Duration::from_millis(200), subscriber.next()).await {
            if it.is_sentinel().is_some() {
                established = true;
                break;
            }
        }
    }
    if !established {
        return Outcome::Inconclusive("precondition not reached: no sentinel arrived".into());
    }
    let mut pb = pub_client.publisher(&topic).with_encoder(StringCodec);
    if let Some((c, _)) = &pair {
        pb = pb.with_compression(c.clone());
    }
    if let Some((size, interval)) = batch {
        pb = pb.with_batching(BatchConfig::new(size, Duration::from_millis(interval)));
    }
    let mut a = match pb.open().await {
        Ok(p) => p,
        Err(e) => return mk("open publisher", e.to_string()),
    };
    let mut sent_a = vec![];
    let mut sent_b = vec![];
    for i in 0..before {
        let it = format!("a{:04}", i);
        if let Err(e) = a.send(it.clone()).await {
            return Outcome::Violated { sig: "send-error".into(), detail: e.to_string() };
        }
        sent_a.push(it);
    }
    let mut b = match a.duplicate().await {
        Ok(p) => p,
        Err(e) => return mk("duplicate()", e.to_string()),
    };
    for i in 0..3 {
        let it = format!("b{:04}", i);
        if let Err(e) = b.send(it.clone()).await {
            return Outcome::Violated { sig: "send-error".into(), detail: e.to_string() };
        }
        sent_b.push(it);
        let it = format!("a{:04}", before + i);
        if let Err(e) = a.send(it.clone()).await {
            return Outcome::Violated { sig: "send-error".into(), detail: e.to_string() };
        }
        sent_a.push(it);
    }
    if let Err(e) = a.finish().await {
        return Outcome::Violated { sig: "finish-error".into(), detail: e.to_string() };
    }
    if let Err(e) = b.finish().await {
        return Outcome::Violated { sig: "finish-error".into(), detail: e.to_string() };
    }
    let finished_at = Instant::now();
    let fence_base = k;
    let mut got: Vec<String> = vec![];
    let mut fences = 0;
    let deadline = Instant::now() + Duration::from_secs(40);
    loop {
        if aux.send(String::sentinel(k)).await.is_err() {
            return mk("aux send (fence)", "error".into());
        }
        k += 1;
        while let Ok(r) = tokio::time::timeout(Duration::from_millis(30), subscriber.next()).await {
            match r {
                Some(Ok(it)) => match it.is_sentinel() {
                    Some(n) if n >= fence_base => fences += 1,
                    Some(_) => {}
                    None => got.push(it),
                },
                Some(Err(e)) => return Outcome::Violated { sig: "subscriber-error/duplicate".into(), detail: e.to_string() },
                None => break,
            }
        }
        if fences >= 25 && (got.len() >= sent_a.len() + sent_b.len() || finished_at.elapsed() > Duration::from_secs(3)) {
            break;
        }
        if Instant::now() > deadline {
            return Outcome::Inconclusive("watchdog: fences did not come back within 40 s".into());
        }
    }
    let ga: Vec<String> = got.iter().filter(|s| s.starts_with('a')).cloned().collect();
    let gb: Vec<String> = got.iter().filter(|s| s.starts_with('b')).cloned().collect();
    if ga == sent_a && gb == sent_b {
        return Outcome::Held { delivered: got.len() };
    }
    let kind = if got.len() > sent_a.len() + sent_b.len() { "duplicated" } else if got.len() < sent_a.len() + sent_b.len() { "lost" } else { "reordered" };
    Outcome::Violated {
        sig: format!("{}/duplicate-publisher", kind),
        detail: format!(
            "publisher A sent {:?}, its duplicate (taken after {} items{}) sent {:?}; the subscriber yielded {:?}",
            sent_a,
            before,
            if batch.is_some() { ", batch partially filled" } else { "" },
            sent_b,
            got
        ),
    }
}

/// An unbatched publisher driven with `feed()` (items stay in the write buffer until a flush) is offered an item
/// over the frame limit in the middle: that item is refused with an error; every item accepted before and after it
/// must still reach the subscriber.
async fn run_feed_oversize(addr: String, certs: Certs, id: u64, comp: Option<&'static str>, before: usize, after: usize) -> Outcome {
    let topic = unique_topic("c03f", id);
    let mk = |what: &str, e: String| Outcome::Inconclusive(format!("{}: {}", what, e));
    let sub_client = match lib_client(&addr, &certs, None).await {
        Ok(c) => c,
        Err(e) => return mk("connect", e.to_string()),
    };
    let pub_client = match lib_client(&addr, &certs, None).await {
        Ok(c) => c,
        Err(e) => return mk("connect", e.to_string()),
    };
    let pair = comp.map(compression_pair);
    let mut sb = sub_client.subscriber(&topic).with_decoder(StringCodec);
    if let Some((_, d)) = &pair {
        sb = sb.with_decompression(d.clone());
    }
    let mut subscriber = match sb.open().await {
        Ok(s) => s,
        Err(e) => return mk("open subscriber", e.to_string()),
    };
    let mut ab = pub_client.publisher(&topic).with_encoder(StringCodec);
    if let Some((c, _)) = &pair {
        ab = ab.with_compression(c.clone());
    }
    let mut aux = match ab.open().await {
        Ok(p) => p,
        Err(e) => return mk("open auxiliary publisher", e.to_string()),
    };
    let mut k = 0u64;
    let t0 = Instant::now();
    let mut established = false;
    while t0.elapsed() < Duration::from_secs(15) {
        if aux.send(String::sentinel(k)).await.is_err() {
            return mk("aux send", "error".into());
        }
        k += 1;
        if let Ok(Some(Ok(it))) = tokio::time::timeout(Duration::from_millis(200), subscriber.next()).await {
            if it.is_sentinel().is_some() {
                established = true;
                break;
            }
        }
    }
    if !established {
        return Outcome::Inconclusive("precondition not reached: no sentinel arrived".into());
    }
    let mut pb = pub_client.publisher(&topic).with_encoder(StringCodec);
    if let Some((c, _)) = &pair {
        pb = pb.with_compression(c.clone());
    }
    let mut a = match pb.open().await {
        Ok(p) => p,
        Err(e) => return mk("open publisher", e.to_string()),
    };
    let mut rng = Rng::new(id);
    let mut accepted = vec![];
    let mut refused = 0;
    let mut script: Vec<String> = (0..before).map(|i| format!("f{:04}", i)).collect();
    // incompressible text well over the limit
    let mut big = String::with_capacity(1_300_000);
    while big.len() < 1_300_000 {
        big.push((b'a' + rng.below(26) as u8) as char);
    }
    script.push(big);
    script.extend((0..after).map(|i| format!("f{:04}", before + i)));
    for it in script {
        let oversize = it.len() > 1_000_000;
        match a.feed(it.clone()).await {
            Ok(()) => accepted.push(it),
            Err(e) => {
                if !oversize {
                    return Outcome::Violated { sig: "send-error".into(), detail: format!("feed() of a {}-byte item failed on a healthy connection: {}", it.len(), e) };
                }
                refused += 1;
            }
        }
    }
    if refused == 0 && comp.is_none() {
        return Outcome::Inconclusive("the 1.3 MB item was not refused".into());
    }
    if let Err(e) = a.finish().await {
        return Outcome::Violated { sig: "finish-error".into(), detail: e.to_string() };
    }
    let finished_at = Instant::now();
    let fence_base = k;
    let mut got: Vec<String> = vec![];
    let mut fences = 0;
    let deadline = Instant::now() + Duration::from_secs(40);
    loop {
        if aux.send(String::sentinel(k)).await.is_err() {
            return mk("aux send (fence)", "error".into());
        }
        k += 1;
        while let Ok(r) = tokio::time::timeout(Duration::from_millis(30), subscriber.next()).await {
            match r {
                Some(Ok(it)) => match it.is_sentinel() {
                    Some(n) if n >= fence_base => fences += 1,
                    Some(_) => {}
                    None => got.push(it),
                },
                Some(Err(e)) => return Outcome::Violated { sig: "subscriber-error/feed-oversize".into(), detail: e.to_string() },
                None => break,
            }
        }
        if fences >= 25 && (got.len() >= accepted.len() || finished_at.elapsed() > Duration::from_secs(3)) {
            break;
        }
        if Instant::now() > deadline {
            return Outcome::Inconclusive("watchdog: fences did not come back within 40 s".into());
        }
    }
    if got == accepted {
        return Outcome::Held { delivered: got.len() };
    }
    let brief = |v: &Vec<String>| v.iter().map(|x| x.chars().take(8).collect::<String>()).collect::<Vec<_>>();
    Outcome::Violated {
        sig: format!("{}/around-refused-item", if got.len() < accepted.len() { "lost" } else { "altered" }),
        detail: format!(
            "publisher fed {} small items, one 1.3 MB item (refused with an error, as it must be), then {} more, and finished; accepted {:?}, the subscriber yielded {:?}",
            before,
            after,
            brief(&accepted),
            brief(&got)
        ),
    }
}

/// one bytes-codec configuration, for other stages (C14's L3) that want the batch/compress/unbatch composition checked
/// end to end through the real publisher and subscriber
pub async fn run_bytes_cfg(addr: String, certs: Certs, cfg: Cfg, seed: u64) -> Outcome {
    run_cfg::<BytesCodec, BytesCodec, Vec<u8>>(addr, certs, cfg, BytesCodec, BytesCodec, seed).await
}

/// Several library subscribers open on a topic nobody has used yet at the same moment (separate clients, released by
/// a barrier); a publisher then sends a few items and finishes. Every subscriber whose open() succeeded "registered
/// before the first send" and must yield exactly the items.
/// A publisher with a connection of its own publishes a burst, `finish()`es and goes away (client dropped: what a
/// short-lived producer process does) while the topic is still behind — its only subscriber is slow to read, or not
/// reading yet. `finish()` returned Ok, so everything accepted before it must still reach the subscriber.
async fn run_publisher_exits(addr: String, certs: Certs, id: u64, items: usize, item_kib: usize, subscriber_reads_after_ms: u64) -> Outcome {
    let topic = unique_topic("c03x", id);
    let mk = |what: &str, e: String| Outcome::Inconclusive(format!("{}: {}", what, e));
    let sub_client = match lib_client(&addr, &certs, None).await {
        Ok(c) => c,
        Err(e) => return mk("connect", e.to_string()),
    };
    let mut subscriber = match sub_client.subscriber(&topic).with_decoder(StringCodec).open().await {
        Ok(s) => s,
        Err(e) => return mk("open subscriber", e.to_string()),
    };
    // the registration must have taken effect before the first send: an auxiliary publisher's sentinel arrives
    {
        let aux_client = match lib_client(&addr, &certs, None).await {
            Ok(c) => c,
            Err(e) => return mk("connect", e.to_string()),
        };
        let mut aux = match aux_client.publisher(&topic).with_encoder(StringCodec).open().await {
            Ok(p) => p,
            Err(e) => return mk("open auxiliary publisher", e.to_string()),
        };
        let t0 = Instant::now();
        let mut k = 0u64;
        let mut established = false;
        while t0.elapsed() < Duration::from_secs(15) {
            if aux.send(String::sentinel(k)).await.is_err() {
                return mk("aux send", "error".into());
            }
            k += 1;
            if let Ok(Some(Ok(it))) = tokio::time::timeout(Duration::from_millis(200), subscriber.next()).await {
                if it.is_sentinel().is_some() {
                    established = true;
                    break;
                }
            }
        }
        if !established {
            return mk("precondition", "subscriber never saw a sentinel".into());
        }
        let _ = aux.finish().await;
        // drain leftover sentinels
        while let Ok(Some(Ok(_))) = tokio::time::timeout(Duration::from_millis(300), subscriber.next()).await {}
    }
    let filler = "z".repeat(item_kib * 1024);
    let sent: Vec<String> = (0..items).map(|i| format!("exit-{:04}|{}", i, filler)).collect();
    {
        let pub_client = match lib_client(&addr, &certs, None).await {
            Ok(c) => c,
            Err(e) => return mk("connect", e.to_string()),
        };
        let mut publisher = match pub_client.publisher(&topic).with_encoder(StringCodec).open().await {
            Ok(p) => p,
            Err(e) => return mk("open publisher", e.to_string()),
        };
        for it in &sent {
            match tokio::time::timeout(Duration::from_secs(10), publisher.send(it.clone())).await {
                Ok(Ok(())) => {}
                Ok(Err(e)) => return Outcome::Violated { sig: "send-error/publisher-exits".into(), detail: e.to_string() },
                Err(_) => return mk("precondition", format!("the burst of {} × {} KiB did not fit the flow-control windows while the subscriber was not reading", items, item_kib)),
            }
        }
        match tokio::time::timeout(Duration::from_secs(20), publisher.finish()).await {
            Ok(Ok(())) => {}
            Ok(Err(e)) => return Outcome::Violated { sig: "finish-error/publisher-exits".into(), detail: e.to_string() },
            Err(_) => return mk("precondition", "finish() did not return within 20 s while the subscriber was not reading".into()),
        }
        // the producer goes away: publisher and client are dropped here, its connection closes
    }
    tokio::time::sleep(Duration::from_millis(subscriber_reads_after_ms)).await;
    let mut got: Vec<String> = vec![];
    while got.len() < sent.len() {
        match tokio::time::timeout(Duration::from_secs(6), subscriber.next()).await {
            Ok(Some(Ok(it))) => {
                if it.is_sentinel().is_none() {
                    got.push(it)
                }
            }
            Ok(Some(Err(e))) => return Outcome::Violated { sig: "subscriber-error/publisher-exits".into(), detail: e.to_string() },
            Ok(None) | Err(_) => break,
        }
    }
    if got != sent {
        let brief = |v: &Vec<String>| v.iter().map(|x| x[..9.min(x.len())].to_string()).collect::<Vec<_>>();
        return Outcome::Violated {
            sig: "lost/publisher-exits".into(),
            detail: format!(
                "a publisher on its own connection sent {} × {} KiB, finish() returned Ok, then its client was dropped; the subscriber (registered before, started reading {} ms later) yielded {} items: {:?}",
                items,
                item_kib,
                subscriber_reads_after_ms,
                got.len(),
                brief(&got)
            ),
        };
    }
    Outcome::Held { delivered: got.len() }
}

/// where the concurrent-open scenario currently is (reported by its watchdog)
static CO_PHASE: std::sync::Mutex<String> = std::sync::Mutex::new(String::new());
fn co_phase(s: String) {
    *CO_PHASE.lock().unwrap() = s;
}

async fn run_concurrent_open(addr: String, certs: Certs, rounds: usize, id: u64) -> Outcome {
    let n = 8usize;
    // A connection is used for a dozen rounds only. The server learns that a subscriber has gone when it next writes
    // to it; every round uses a fresh topic that falls silent once its publisher has finished, so the server never
    // releases these streams, and after 100 of them on one connection QUIC's stream credit is used up and open() waits
    // for ever (seen as a watchdog at round 100 of the thorough tier; no statement covers that, see DESIGN.md §12).
    let mut clients: Vec<selium::Client> = vec![];
    let mut pub_client: Option<selium::Client> = None;
    let mut delivered = 0usize;
    for round in 0..rounds {
        if round % 12 == 0 {
            clients.clear();
            for _ in 0..n {
                match lib_client(&addr, &certs, None).await {
                    Ok(c) => clients.push(c),
                    Err(e) => return Outcome::Inconclusive(format!("connect: {e}")),
                }
            }
            pub_client = match lib_client(&addr, &certs, None).await {
                Ok(c) => Some(c),
                Err(e) => return Outcome::Inconclusive(format!("connect: {e}")),
            };
        }
        let pub_client = pub_client.as_ref().unwrap();
        let topic = unique_topic("c03r", id * 10_000 + round as u64);
        let barrier = Arc::new(tokio::sync::Barrier::new(n));
        let mut tasks = vec![];
        for c in clients.iter() {
            let (c, b, t) = (c.clone(), barrier.clone(), topic.clone());
            tasks.push(tokio::spawn(async move {
                let builder = c.subscriber(&t).with_decoder(StringCodec);
                b.wait().await;
                builder.open().await.map_err(|e| e.to_string())
            }));
        }
        let mut subs = vec![];
        for (k, t) in tasks.into_iter().enumerate() {
            co_phase(format!("round {}: waiting for open() of subscriber {} of {}", round, k, n));
            match t.await {
                Ok(Ok(s)) => subs.push(s),
                Ok(Err(e)) => return Outcome::Violated { sig: "open-error/concurrent-open".into(), detail: format!("round {}: open() of a subscriber on a fresh topic failed on a healthy connection: {}", round, e) },
                Err(e) => return Outcome::Inconclusive(format!("harness task: {e}")),
            }
        }
        co_phase(format!("round {}: opening the publisher", round));
        let mut publisher = match pub_client.publisher(&topic).with_encoder(StringCodec).open().await {
            Ok(p) => p,
            Err(e) => return Outcome::Inconclusive(format!("open publisher: {e}")),
        };
        tokio::time::sleep(Duration::from_millis(40)).await;
        let sent: Vec<String> = (0..5).map(|i| format!("r{}-item{}", round, i)).collect();
        for it in &sent {
            co_phase(format!("round {}: publisher.send({})", round, it));
            if let Err(e) = publisher.send(it.clone()).await {
                return Outcome::Violated { sig: "send-error".into(), detail: e.to_string() };
            }
        }
        co_phase(format!("round {}: publisher.finish()", round));
        if let Err(e) = publisher.finish().await {
            return Outcome::Violated { sig: "finish-error".into(), detail: e.to_string() };
        }
        for (k, mut s) in subs.into_iter().enumerate() {
            co_phase(format!("round {}: reading subscriber {}", round, k));
            let mut got: Vec<String> = vec![];
            let deadline = tokio::time::Instant::now() + Duration::from_secs(4);
            while got.len() < sent.len() {
                match tokio::time::timeout_at(deadline, s.next()).await {
                    Ok(Some(Ok(it))) => got.push(it),
                    Ok(Some(Err(e))) => return Outcome::Violated { sig: "subscriber-error/concurrent-open".into(), detail: format!("round {}: subscriber {} yielded an error: {}", round, k, e) },
                    Ok(None) | Err(_) => break,
                }
            }
            if got != sent {
                return Outcome::Violated {
                    sig: "lost/concurrent-open".into(),
                    detail: format!("round {}: {} subscribers opened on the fresh topic {} at the same moment (all open() calls succeeded); the publisher then sent {:?} and finished; subscriber {} yielded {:?} within 4 s", round, n, topic, sent, k, got),
                };
            }
            delivered += got.len();
        }
    }
    Outcome::Held { delivered }
}

fn configs(tier: &str, rng: &mut Rng) -> Vec<Cfg> {
    let thorough = tier == "thorough";
    let comps: Vec<Option<&str>> = vec![None, Some("gzip"), Some("zlib"), Some("zstd"), Some("lz4"), Some("brotli-generic"), Some("brotli-text"), Some("brotli-font"), Some("zlib-9"), Some("zstd-fastest"), Some("gzip-fastest")];
    let codecs = ["string", "bytes", "bincode"];
    let mut v = vec![];
    let mut id = 0u64;
    let mut push = |codec: &'static str, comp: Option<&str>, batch: Option<(u32, u64)>, count: usize, payload: usize, v: &mut Vec<Cfg>| {
        id += 1;
        v.push(Cfg { codec, compression: comp.map(|s| s.to_string()), batch, count, payload, sizes: None, compressible: false, precompressed: false, id });
    };
    // systematic core: every codec × every compression, unbatched and batched with a partial tail
    for codec in codecs {
        for comp in &comps {
            push(codec, *comp, None, 5, 24, &mut v);
            push(codec, *comp, Some((3, 3_600_000)), 7, 24, &mut v);
        }
    }
    // batching grid: size × interval × count relative to size
    for &size in &[1u32, 2, 3, 7, 100, 250] {
        for &interval in &[0u64, 1, 50, 3_600_000] {
            let s = size as usize;
            let counts: Vec<usize> = if size <= 7 { vec![0, 1, s.saturating_sub(1), s, s + 1, 2 * s + 1] } else { vec![1, s - 1, s + 1] };
            for c in counts {
                if !thorough && rng.pct(25) {
                    continue;
                }
                let codec = codecs[rng.usize(3)];
                let comp = comps[rng.usize(comps.len())];
                push(codec, comp, Some((size, interval)), c, 16 + rng.below(40) as usize, &mut v);
            }
        }
    }
    // payload sizes
    for &(payload, count) in &[(0usize, 3usize), (1, 3), (65_536, 3), (1_048_000, 2), (300_000, 3)] {
        push("string", None, None, count, payload, &mut v);
        push("bytes", Some("zstd"), None, count, payload, &mut v);
        if payload <= 65_536 {
            push("bincode", Some("lz4"), Some((2, 3_600_000)), count, payload, &mut v);
            push("string", Some("gzip"), Some((4, 0)), count, payload, &mut v);
        }
    }
    // compressible bulk: batches of individually legal messages that decompress to more than the frame limit
    // while the compressed batch frame stays tiny (compression is applied to the whole batch)
    let n_bulk = if thorough { 60 } else { 10 };
    for k in 0..n_bulk {
        let comp = ["zstd", "gzip", "zlib", "lz4", "brotli-generic", "zstd-fastest", "brotli-text", "zlib-9", "gzip-fastest", "brotli-font"][k % 10];
        let codec = codecs[k % 3];
        let per = *rng.pick(&[200_000usize, 400_000, 700_000, 1_000_000]);
        let batch_n = *rng.pick(&[3u32, 4, 6]);
        let count = batch_n as usize + rng.below(3) as usize; // a full batch and a partial tail flushed by finish()
        push(codec, Some(comp), Some((batch_n, 3_600_000)), count, per, &mut v);
        v.last_mut().unwrap().compressible = true;
    }
    // mixed payload sizes inside one stream: a few large messages among tiny ones, total below the frame
    // limit so that every possible batch still fits into one frame
    let n_mixed = if thorough { 260 } else { 40 };
    for k in 0..n_mixed {
        let n = rng.range(3, 8) as usize;
        let mut sizes: Vec<usize> = (0..n).map(|_| rng.below(48) as usize).collect();
        let bigs = rng.range(1, 2) as usize;
        let mut budget: usize = 960_000;
        for _ in 0..bigs {
            let pos = rng.usize(n);
            let big = match rng.below(5) {
                0 => 524_272 + rng.below(64) as usize - 32,
                1 => 600_000,
                2 => 300_000 + rng.below(100_000) as usize,
                3 => 65_536 + rng.below(4096) as usize,
                _ => 100_000 + rng.below(800_000) as usize,
            };
            let big = big.min(budget);
            budget -= big.min(budget);
            sizes[pos] = big;
        }
        let codec = ["string", "bytes"][k % 2];
        // compression only where it cannot expand the large payload past the limit (bytes payloads are random)
        let comp = if codec == "string" { *rng.pick(&[None, Some("gzip"), Some("zstd"), Some("lz4")]) } else { None };
        let batch = if k % 4 == 3 { None } else { Some((*rng.pick(&[2u32, 3, 10, 100]), *rng.pick(&[3_600_000u64, 3_600_000, 50]))) };
        push(codec, comp, batch, n, 0, &mut v);
        v.last_mut().unwrap().sizes = Some(sizes);
    }
    // mixed sizes without any budget: batches may exceed one frame several times over
    let n_over = if thorough { 120 } else { 16 };
    for k in 0..n_over {
        let n = rng.range(4, 9) as usize;
        let mut sizes: Vec<usize> = (0..n).map(|_| rng.below(64) as usize).collect();
        for _ in 0..rng.range(2, 4) {
            let pos = rng.usize(n);
            sizes[pos] = match rng.below(4) {
                0 => 1_000_000,
                1 => 524_288 + rng.below(16) as usize,
                2 => 349_520 + rng.below(16) as usize,
                _ => 300_000 + rng.below(700_000) as usize,
            };
        }
        let codec = ["bytes", "string", "bincode"][k % 3];
        let comp = if k % 4 == 1 { Some(*rng.pick(&["zstd", "lz4", "gzip"])) } else { None };
        push(codec, comp, Some((*rng.pick(&[2u32, 3, 4, 10, 100]), *rng.pick(&[3_600_000u64, 3_600_000, 40]))), n, 0, &mut v);
        v.last_mut().unwrap().sizes = Some(sizes);
    }
    // payloads that are compressed streams themselves, through every compressor, unbatched and batched
    for (k, comp) in comps.iter().enumerate() {
        if comp.is_none() || (!thorough && k % 2 == 0 && k > 5) {
            continue;
        }
        push("bytes", *comp, None, 8, 0, &mut v);
        v.last_mut().unwrap().precompressed = true;
        push("bytes", *comp, Some((3, 3_600_000)), 8, 0, &mut v);
        v.last_mut().unwrap().precompressed = true;
    }
    // incompressible batches whose encoding lies at, or a little under, the frame limit, with every compressor: the
    // compressed form of incompressible data is a few bytes to a few hundred bytes *larger* than its input
    {
        const LIMIT: usize = 1024 * 1024;
        let algos = ["lz4", "zstd", "gzip", "zlib", "brotli-generic", "zstd-fastest"];
        let slacks: &[usize] = if thorough { &[0, 1, 8, 16, 40, 100, 200, 340, 400, 1000, 5000] } else { &[0, 16, 200, 1000] };
        for (ai, algo) in algos.iter().enumerate() {
            for (si, d) in slacks.iter().enumerate() {
                if !thorough && (ai + si) % 2 == 1 {
                    continue;
                }
                let n = 4usize;
                let body = LIMIT - d - 8 - 8 * n;
                let q = body / n;
                let mut sizes = vec![q; n - 1];
                sizes.push(body - q * (n - 1));
                let tail = (ai + si) % 3 != 0;
                if tail {
                    sizes.push(10);
                }
                let count = sizes.len();
                push("bytes", Some(algo), Some((n as u32, 3_600_000)), count, 0, &mut v);
                v.last_mut().unwrap().sizes = Some(sizes);
            }
        }
    }
    // batches of individually legal, incompressible messages whose *combined* encoding exceeds one frame
    for (k, sizes) in [vec![400_000usize, 400_000, 400_000, 10, 10], vec![10, 700_000, 700_000, 10], vec![1_000_000, 1_000_000, 20], vec![524_288, 524_288, 5, 5, 5]].into_iter().enumerate() {
        let n = sizes.len();
        push("bytes", None, Some(([3u32, 2, 2, 5][k], 3_600_000)), n, 0, &mut v);
        v.last_mut().unwrap().sizes = Some(sizes);
    }
    {
        for _ in 0..(if thorough { 1400 } else { 120 }) {
            let codec = codecs[rng.usize(3)];
            let comp = comps[rng.usize(comps.len())];
            let batch = if rng.pct(70) { Some((*rng.pick(&[1u32, 2, 3, 5, 7, 16, 100]), *rng.pick(&[0u64, 1, 5, 50, 3_600_000]))) } else { None };
            let count = rng.below(40) as usize;
            let payload = match rng.below(5) {
                0 => rng.below(8) as usize,
                1 => rng.below(5000) as usize,
                _ => rng.below(120) as usize,
            };
            push(codec, comp, batch, count, payload, &mut v);
        }
    }
    v
}

pub fn run(rep: &mut StageReport, tier: &str, seed: u64) {
    let rt = runtime(8);
    let mut rng = Rng::new(seed ^ 0xC03);
    let mut cfgs = configs(tier, &mut rng);
    if let Ok(only) = std::env::var("VERIF_C03_ONLY") {
        // debugging aid: run a single configuration by id
        cfgs.retain(|c| c.id.to_string() == only);
    }
    let certs = match gen_certs() {
        Ok(c) => c,
        Err(e) => {
            rep.inconclusive(&format!("certificate generation failed: {}", e));
            return;
        }
    };
    let mark = panic_mark();
    let results: Vec<(Cfg, Outcome)> = rt.block_on(async {
        let server = match start_server(&certs) {
            Ok(s) => s,
            Err(e) => return vec![(cfgs[0].clone(), Outcome::Inconclusive(format!("server start failed: {}", e)))],
        };
        let addr = server.endpoint();
        let mut out = vec![];
        for chunk in cfgs.chunks(12) {
            let mut hs = vec![];
            for cfg in chunk {
                let (addr, certs, cfg) = (addr.clone(), certs.clone(), cfg.clone());
                let s = crate::common::mix(seed, cfg.id);
                hs.push(tokio::spawn(async move {
                    let fut = async {
                        match cfg.codec {
                            "string" => run_cfg::<StringCodec, StringCodec, String>(addr, certs, cfg.clone(), StringCodec, StringCodec, s).await,
                            "bytes" => run_cfg::<BytesCodec, BytesCodec, Vec<u8>>(addr, certs, cfg.clone(), BytesCodec, BytesCodec, s).await,
                            _ => run_cfg::<BincodeCodec<Rec>, BincodeCodec<Rec>, Rec>(addr, certs, cfg.clone(), BincodeCodec::default(), BincodeCodec::default(), s).await,
                        }
                    };
                    let r = match tokio::time::timeout(Duration::from_secs(90), fut).await {
                        Ok(o) => o,
                        Err(_) => Outcome::Inconclusive("watchdog: configuration did not finish within 90 s".into()),
                    };
                    (cfg, r)
                }));
            }
            for h in hs {
                match h.await {
                    Ok(x) => out.push(x),
                    Err(e) => out.push((chunk[0].clone(), Outcome::Inconclusive(format!("harness task failed: {}", e)))),
                }
            }
        }
        // duplicate() taken mid-stream
        let dups: Vec<(Option<(u32, u64)>, Option<&'static str>, usize)> = vec![
            (Some((10, 3_600_000)), None, 2),
            (Some((4, 3_600_000)), Some("zstd"), 3),
            (Some((3, 3_600_000)), Some("gzip"), 3),
            (Some((5, 50)), None, 1),
            (None, None, 2),
            (Some((100, 3_600_000)), Some("lz4"), 0),
        ];
        for (i, (batch, comp, before)) in dups.into_iter().enumerate() {
            let cfg = Cfg { codec: "string", compression: comp.map(|s| s.to_string()), batch, count: before + 6, payload: 5, sizes: None, compressible: false, precompressed: false, id: 90_000 + i as u64 };
            let r = match tokio::time::timeout(Duration::from_secs(90), run_duplicate(addr.clone(), certs.clone(), 90_000 + i as u64, batch, comp, before)).await {
                Ok(o) => o,
                Err(_) => Outcome::Inconclusive("watchdog: duplicate scenario did not finish within 90 s".into()),
            };
            out.push((cfg, r));
        }
        for (i, (comp, before, after)) in [(None, 2usize, 1usize), (None, 5, 3), (Some("lz4"), 3, 2), (None, 0, 2), (None, 40, 0)].into_iter().enumerate() {
            let cfg = Cfg { codec: "string", compression: comp.map(|s: &str| s.to_string()), batch: None, count: before + after + 1, payload: 5, sizes: None, compressible: false, precompressed: false, id: 91_000 + i as u64 };
            let r = match tokio::time::timeout(Duration::from_secs(90), run_feed_oversize(addr.clone(), certs.clone(), 91_000 + i as u64, comp, before, after)).await {
                Ok(o) => o,
                Err(_) => Outcome::Inconclusive("watchdog: feed/oversize scenario did not finish within 90 s".into()),
            };
            out.push((cfg, r));
        }
        {
            // a subscriber that silently re-registered after a connection loss, then idles: the items accepted next
            let cfg = Cfg { codec: "string", compression: None, batch: None, count: 2, payload: 2, sizes: None, compressible: false, precompressed: false, id: 93_000 };
            let r = match tokio::time::timeout(Duration::from_secs(120), super::c12::idle_after_recovery(&certs, 2)).await {
                Ok(Ok(n)) => Outcome::Held { delivered: n as usize },
                Ok(Err((sig, d))) if sig == "INCONCLUSIVE" => Outcome::Inconclusive(d),
                Ok(Err((sig, d))) => Outcome::Violated { sig: format!("lost/{}", sig.replace("subscriber/", "")), detail: d },
                Err(_) => Outcome::Inconclusive("watchdog: idle-after-recovery scenario did not finish within 120 s".into()),
            };
            out.push((cfg, r));
        }
        for (i, (items, kib, wait)) in (if tier == "thorough" { vec![(24usize, 64usize, 500u64), (30, 64, 0), (12, 128, 1500), (200, 1, 300), (3, 512, 800)] } else { vec![(24usize, 64usize, 500u64), (200, 1, 0)] }).into_iter().enumerate() {
            let cfg = Cfg { codec: "string", compression: None, batch: None, count: items, payload: kib * 1024, sizes: None, compressible: false, precompressed: false, id: 94_000 + i as u64 };
            let r = match tokio::time::timeout(Duration::from_secs(120), run_publisher_exits(addr.clone(), certs.clone(), 94_000 + i as u64, items, kib, wait)).await {
                Ok(o) => o,
                Err(_) => Outcome::Inconclusive("watchdog: publisher-exits scenario did not finish within 120 s".into()),
            };
            out.push((cfg, r));
        }
        {
            let rounds = if tier == "thorough" { 200 } else { 25 };
            let cfg = Cfg { codec: "string", compression: None, batch: None, count: 5 * rounds, payload: 10, sizes: None, compressible: false, precompressed: false, id: 92_000 };
            let wd = std::env::var("VERIF_C03_CO_WATCHDOG").ok().and_then(|v| v.parse().ok()).unwrap_or(400u64);
            let r = match tokio::time::timeout(Duration::from_secs(wd), run_concurrent_open(addr.clone(), certs.clone(), rounds, 1)).await {
                Ok(o) => o,
                Err(_) => Outcome::Inconclusive(format!("watchdog: concurrent-open scenario did not finish within {} s (it was at: {})", wd, CO_PHASE.lock().unwrap())),
            };
            out.push((cfg, r));
        }
        server.stop();
        out
    });
    let mut delivered_total = 0u64;
    for (cfg, o) in results {
        rep.evaluations += 1;
        let mut h = Hasher64::new();
        h.s(&format!("{:?}", (cfg.codec, &cfg.compression, cfg.batch, cfg.count, cfg.payload, &cfg.sizes, cfg.compressible)));
        match o {
            Outcome::Held { delivered } => {
                delivered_total += delivered as u64;
                if cfg.count > 0 {
                    rep.distinct.insert(h.0);
                }
                if rep.samples.len() < 4 && cfg.batch.is_some() {
                    rep.sample(json!({"configuration": cfg.json(), "history": format!("{} items accepted, finish() Ok, subscriber yielded the same {} items in order", cfg.count, delivered)}));
                }
            }
            Outcome::Violated { sig, detail } => {
                let signature = format!("C03/e2e/{}", sig);
                let already = rep.violations.iter().filter(|v| v.signature == signature).count();
                let replay = if already < 2 { write_replay("C03", &sig, cfg.id, json!({"property": "C03", "configuration": cfg.json(), "detail": detail, "seed": seed})) } else { String::new() };
                rep.violation(Violation { signature, detail: format!("{} — configuration {}", detail, cfg.json()), replay });
            }
            Outcome::Inconclusive(why) => {
                if why.starts_with("watchdog") {
                    eprintln!("C03 watchdog fired for configuration id={} {}", cfg.id, cfg.json());
                }
                rep.inconclusive(&why)
            }
        }
    }
    for p in repo_panics_since(mark) {
        rep.violation(Violation { signature: format!("C03/e2e/panic/{}", crate::routersim::exec::normalise_location(&p.location)), detail: format!("panic in thread {} at {}: {}", p.thread, p.location, p.message), replay: String::new() });
    }
    rep.count("items_delivered_in_order", delivered_total);
    rep.rule = "one evaluation = one publisher/subscriber configuration (codec × compression × batching size/interval × message count × payload size) run end to end through an in-process server over loopback QUIC; registration established by sentinels, completion decided by 25 fence messages sent after finish(); non-trivial = at least one item sent; distinct = distinct configuration".into();
    rep.assumptions.push("loss is declared only after 25 fence messages published after finish() returned were received by the same subscriber and 3 s have passed".into());
}

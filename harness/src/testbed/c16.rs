//! C16 (L3 part) — shutdown cannot hang on a topic: the real server (built like `main.rs` builds it,
//! run in a child process of this binary) with live peers receives SIGINT and must exit.

use super::*;
use crate::common::{write_replay, StageReport, Violation};
use bytes::Bytes;
use selium_protocol::{MessagePayload, PublisherPayload, ReplierPayload, RequestorPayload, SubscriberPayload, TopicName};
use serde_json::json;
use std::collections::HashMap;
use std::time::Instant;

/// child mode: exactly what server/src/main.rs does, plus writing the bound address to a file
pub fn serve_main(certs_dir: &str, addr_file: &str) {
    serve_main_at(certs_dir, addr_file, "127.0.0.1:0")
}

pub fn serve_main_at(certs_dir: &str, addr_file: &str, bind: &str) {
    serve_main_with(certs_dir, addr_file, bind, None)
}

/// `ca_override`: the path given as `--ca` instead of the certificate set's CA file (it may not exist)
pub fn serve_main_with(certs_dir: &str, addr_file: &str, bind: &str, ca_override: Option<String>) {
    let certs = Certs { dir: PathBuf::from(certs_dir) };
    let bind = bind.to_string();
    let rt = tokio::runtime::Builder::new_multi_thread().enable_all().build().unwrap();
    rt.block_on(async move {
        let mut args = server_args(&certs, &bind, 15000);
        if let Some(ca) = ca_override {
            args.cert.ca = PathBuf::from(ca);
        }
        let server = match Server::try_from(args) {
            Ok(s) => s,
            Err(e) => {
                eprintln!("serve: {e}");
                std::process::exit(3);
            }
        };
        let addr = server.addr().unwrap();
        std::fs::write(addr_file, addr.to_string()).unwrap();
        if let Err(e) = server.listen().await {
            eprintln!("serve: listen error {e:?}");
        }
    });
    // listen() returned: graceful shutdown completed
    std::process::exit(0);
}

fn reg(kind: usize, topic: &str) -> Frame {
    let t = TopicName::try_from(topic).unwrap();
    match kind {
        0 => Frame::RegisterPublisher(PublisherPayload { topic: t, retention_policy: 0, operations: vec![] }),
        1 => Frame::RegisterSubscriber(SubscriberPayload { topic: t, retention_policy: 0, operations: vec![] }),
        2 => Frame::RegisterReplier(ReplierPayload { topic: t }),
        _ => Frame::RegisterRequestor(RequestorPayload { topic: t }),
    }
}

#[derive(Clone, Copy, Debug)]
enum Scn {
    Idle,
    SubThenIdlePublisherLast,
    PublisherOnly,
    SubscriberOnly,
    MidDelivery,
    ReplierOnly,
    RequestorOnly,
    ReqRepBoth,
    RejectedReplier,
    ManyTopics,
}

const ALL: [Scn; 10] = [Scn::Idle, Scn::SubThenIdlePublisherLast, Scn::PublisherOnly, Scn::SubscriberOnly, Scn::MidDelivery, Scn::ReplierOnly, Scn::RequestorOnly, Scn::ReqRepBoth, Scn::RejectedReplier, Scn::ManyTopics];

async fn drive(addr: SocketAddr, certs: &Certs, scn: Scn) -> std::result::Result<Vec<BiStream>, String> {
    let conn = raw_connect(addr, certs).await.map_err(|e| format!("connect: {e}"))?;
    let mut keep: Vec<BiStream> = vec![];
    let open = |kind: usize, topic: &'static str| {
        let conn = &conn;
        async move {
            let (s, r) = conn.open(reg(kind, topic), Duration::from_secs(8)).await.map_err(|e| format!("open: {e}"))?;
            if r != Some(Frame::Ok) {
                return Err(format!("registration answered {:?}", r));
            }
            Ok::<BiStream, String>(s)
        }
    };
    let m = |body: &str| Frame::Message(MessagePayload { headers: None, message: Bytes::copy_from_slice(body.as_bytes()) });
    match scn {
        Scn::Idle => {}
        Scn::SubThenIdlePublisherLast => {
            let mut sub = open(1, "/c16x/top1").await?;
            let mut p1 = open(0, "/c16x/top1").await?;
            // make sure both are adopted: a message flows
            for _ in 0..50 {
                let _ = p1.send(m("warm")).await;
                if let Ok(Some(Ok(_))) = tokio::time::timeout(Duration::from_millis(100), sub.next()).await {
                    break;
                }
            }
            // the last event this topic processes is the registration of an idle publisher
            let p2 = open(0, "/c16x/top1").await?;
            tokio::time::sleep(Duration::from_millis(150)).await;
            keep.extend([sub, p1, p2]);
        }
        Scn::PublisherOnly => {
            let p = open(0, "/c16x/top2").await?;
            keep.push(p);
        }
        Scn::SubscriberOnly => {
            let s = open(1, "/c16x/top3").await?;
            let s2 = open(1, "/c16x/top3").await?;
            keep.extend([s, s2]);
        }
        Scn::MidDelivery => {
            let mut sub = open(1, "/c16x/top4").await?;
            let mut p = open(0, "/c16x/top4").await?;
            let reader = tokio::spawn(async move {
                while let Some(Ok(_)) = sub.next().await {}
            });
            let writer = tokio::spawn(async move {
                loop {
                    if p.send(Frame::Message(MessagePayload { headers: None, message: Bytes::from(vec![7u8; 4000]) })).await.is_err() {
                        break;
                    }
                    tokio::task::yield_now().await;
                }
            });
            tokio::time::sleep(Duration::from_millis(200)).await;
            std::mem::forget(reader);
            std::mem::forget(writer);
        }
        Scn::ReplierOnly => {
            let r = open(2, "/c16x/top5").await?;
            keep.push(r);
        }
        Scn::RequestorOnly => {
            let mut r = open(3, "/c16x/top6").await?;
            let mut h = HashMap::new();
            h.insert("req_id".to_string(), "1".to_string());
            let _ = r.send(Frame::Message(MessagePayload { headers: Some(h), message: Bytes::from_static(b"nobody answers") })).await;
            keep.push(r);
        }
        Scn::ReqRepBoth => {
            let rep = open(2, "/c16x/top7").await?;
            let rq = open(3, "/c16x/top7").await?;
            let rq2 = open(3, "/c16x/top7").await?;
            tokio::time::sleep(Duration::from_millis(100)).await;
            keep.extend([rep, rq, rq2]);
        }
        Scn::RejectedReplier => {
            let rep = open(2, "/c16x/top8").await?;
            let rq = open(3, "/c16x/top8").await?;
            let rep2 = open(2, "/c16x/top8").await?;
            tokio::time::sleep(Duration::from_millis(100)).await;
            keep.extend([rep, rq, rep2]);
        }
        Scn::ManyTopics => {
            for (k, t) in [(1usize, "/c16x/mix1"), (0, "/c16x/mix1"), (0, "/c16x/mix2"), (1, "/c16x/mix3"), (2, "/c16x/mix4"), (3, "/c16x/mix5"), (2, "/c16x/mix6"), (3, "/c16x/mix6"), (0, "/c16x/mix1")] {
                keep.push(open(k, t).await?);
            }
            tokio::time::sleep(Duration::from_millis(100)).await;
        }
    }
    // keep the connection itself alive for the caller
    std::mem::forget(conn);
    Ok(keep)
}

pub fn run(rep: &mut StageReport, tier: &str, _seed: u64, exe: &str) {
    let repeats = std::env::var("VERIF_C16_REPEATS").ok().and_then(|v| v.parse().ok()).unwrap_or(if tier == "thorough" { 6 } else { 1 });
    let only = std::env::var("VERIF_C16_ONLY").ok();
    let rt = runtime(2);
    rep.max_samples = 12;
    let mut resent_total = 0u64;
    for rnd in 0..repeats {
        for scn in ALL {
            if let Some(o) = &only {
                if &format!("{:?}", scn) != o {
                    continue;
                }
            }
            rep.evaluations += 1;
            let certs = match gen_certs() {
                Ok(c) => c,
                Err(e) => {
                    rep.inconclusive(&format!("certs: {e}"));
                    continue;
                }
            };
            let addr_file = scratch_dir().join(format!("addr-{}-{:?}", rnd, scn));
            let _ = std::fs::remove_file(&addr_file);
            let stderr_file = scratch_dir().join(format!("server-stderr-{}-{:?}.log", rnd, scn));
            let child = std::process::Command::new(exe)
                .args(["--serve", "--certs", &certs.dir.to_string_lossy(), "--addr-file", &addr_file.to_string_lossy()])
                .stdout(std::process::Stdio::null())
                .stderr(std::fs::File::create(&stderr_file).map(std::process::Stdio::from).unwrap_or(std::process::Stdio::null()))
                .spawn();
            let mut child = match child {
                Ok(c) => c,
                Err(e) => {
                    rep.inconclusive(&format!("could not spawn server child: {e}"));
                    continue;
                }
            };
            let t0 = Instant::now();
            let mut addr: Option<SocketAddr> = None;
            while t0.elapsed() < Duration::from_secs(20) {
                if let Ok(s) = std::fs::read_to_string(&addr_file) {
                    if let Ok(a) = s.trim().parse() {
                        addr = Some(a);
                        break;
                    }
                }
                std::thread::sleep(Duration::from_millis(20));
            }
            let Some(addr) = addr else {
                let _ = child.kill();
                let _ = child.wait();
                rep.inconclusive("server child did not report its address within 20 s");
                continue;
            };
            let driven = rt.block_on(async { tokio::time::timeout(Duration::from_secs(60), drive(addr, &certs, scn)).await });
            let keep = match driven {
                Ok(Ok(k)) => k,
                Ok(Err(e)) => {
                    let _ = child.kill();
                    let _ = child.wait();
                    rep.inconclusive(&format!("scenario {:?} could not be set up: {}", scn, e));
                    continue;
                }
                Err(_) => {
                    let _ = child.kill();
                    let _ = child.wait();
                    rep.inconclusive(&format!("watchdog: scenario {:?} set-up did not finish in 60 s", scn));
                    continue;
                }
            };
            // SIGINT, as ctrl-c would deliver it.  The property starts "once the server closes a topic's registration
            // channel": the server's accept loop creates a fresh ctrl_c() listener per iteration, and a SIGINT that lands while
            // none exists is not acted on (tokio's handler stays installed and swallows it), so nothing was closed and there is
            // nothing for C16 to decide yet.  The signal is therefore repeated, as a person at the terminal would, until the
            // process goes; once shutdown() runs, further SIGINTs have no effect, so a router that hangs is still seen as a hang.
            unsafe {
                libc::kill(child.id() as i32, libc::SIGINT);
            }
            let t_sig = Instant::now();
            let mut last_sig = Instant::now();
            let mut sigints = 1u32;
            let mut exited: Option<std::process::ExitStatus> = None;
            while t_sig.elapsed() < Duration::from_secs(120) {
                // keep the runtime (and therefore the peers' connections) alive and responsive
                rt.block_on(async { tokio::time::sleep(Duration::from_millis(20)).await });
                if last_sig.elapsed() >= Duration::from_secs(3) {
                    unsafe {
                        libc::kill(child.id() as i32, libc::SIGINT);
                    }
                    last_sig = Instant::now();
                    sigints += 1;
                }
                match child.try_wait() {
                    Ok(Some(st)) => {
                        exited = Some(st);
                        break;
                    }
                    Ok(None) => {}
                    Err(_) => break,
                }
            }
            let took = t_sig.elapsed();
            drop(keep);
            let stderr = std::fs::read_to_string(&stderr_file).unwrap_or_default();
            let _ = std::fs::remove_file(&stderr_file);
            let _ = std::fs::remove_file(&addr_file);
            let _ = std::fs::remove_dir_all(&certs.dir);
            match exited {
                Some(st) if took <= Duration::from_secs(30) => {
                    if stderr.contains("panicked at") {
                        let loc = stderr.lines().find(|l| l.contains("panicked at")).unwrap_or("").to_string();
                        rep.violation(Violation { signature: format!("C16/server-shutdown/panic/{:?}", scn), detail: format!("server process panicked during scenario {:?}: {}", scn, loc), replay: String::new() });
                    } else {
                        rep.distinct.insert(crate::common::mix(rnd as u64, scn as u64));
                        if sigints > 1 {
                            resent_total += 1;
                        }
                        rep.sample(json!({"scenario": format!("{:?}", scn), "sigint_to_exit_ms": took.as_millis() as u64, "sigints_sent": sigints, "exit_status": format!("{:?}", st.code())}));
                    }
                }
                Some(_) => {
                    let detail = format!("scenario {:?}: the server needed {:?} to exit after SIGINT (bound 30 s)", scn, took);
                    let replay = write_replay("C16", "slow-shutdown", scn as u64, json!({"property": "C16", "detail": detail}));
                    rep.violation(Violation { signature: format!("C16/server-shutdown/slow/{:?}", scn), detail, replay });
                }
                None => {
                    let _ = child.kill();
                    let _ = child.wait();
                    let detail = format!("scenario {:?}: the server had not exited 120 s after the first of {} SIGINTs (shutdown hangs on a topic)", scn, sigints);
                    let replay = write_replay("C16", "shutdown-hangs", scn as u64, json!({"property": "C16", "detail": detail, "server_stderr_tail": stderr.chars().rev().take(600).collect::<String>().chars().rev().collect::<String>()}));
                    rep.violation(Violation { signature: format!("C16/server-shutdown/hangs/{:?}", scn), detail, replay });
                }
            }
        }
    }
    rep.counters.insert("runs in which the first SIGINT was not acted on and had to be repeated".into(), resent_total);
    rep.rule = "one evaluation = one live-peer scenario (idle; subscriber + idle publisher joined last; publisher only; subscribers only; mid-delivery; replier only; requestor only; both; rejected replier pending; many topics) against the real server run as a child process exactly like main.rs; SIGINT (repeated every 3 s while the process lives) must lead to process exit within 30 s (normal: milliseconds); distinct = (round, scenario)".into();
}

//! C11 (L3 part) — every stream open is answered truthfully; no frame sequence breaks the server.
//! Raw wire peers against the real server.

use super::*;
use crate::common::{write_replay, Rng, StageReport, Violation};
use bytes::Bytes;
use selium::prelude::*;
use selium::std::codecs::StringCodec;
use selium::std::errors::SeliumError;
use selium_protocol::error_codes::REPLIER_ALREADY_BOUND;
use selium_protocol::{ErrorPayload, MessagePayload, PublisherPayload, ReplierPayload, RequestorPayload, SubscriberPayload, TopicName};
use serde_json::json;
use std::collections::HashMap;

const LIMIT: usize = 1024 * 1024;

fn tn(s: &str) -> TopicName {
    TopicName::try_from(s).unwrap()
}

fn first_frame(kind: usize, topic: &str) -> Frame {
    match kind {
        0 => Frame::RegisterPublisher(PublisherPayload { topic: tn(topic), retention_policy: 0, operations: vec![] }),
        1 => Frame::RegisterSubscriber(SubscriberPayload { topic: tn(topic), retention_policy: 0, operations: vec![] }),
        2 => Frame::RegisterReplier(ReplierPayload { topic: tn(topic) }),
        3 => Frame::RegisterRequestor(RequestorPayload { topic: tn(topic) }),
        4 => Frame::Message(MessagePayload { headers: None, message: Bytes::from_static(b"first frame is a message") }),
        5 => Frame::BatchMessage(Bytes::from_static(b"\0\0\0\0\0\0\0\0")),
        6 => Frame::Error(ErrorPayload { code: 9, message: Bytes::from_static(b"first frame is an error") }),
        _ => Frame::Ok,
    }
}

const KIND_NAMES: [&str; 8] = ["RegisterPublisher", "RegisterSubscriber", "RegisterReplier", "RegisterRequestor", "Message", "BatchMessage", "Error", "Ok"];

fn msg(headers: Option<HashMap<String, String>>, body: &[u8]) -> Frame {
    Frame::Message(MessagePayload { headers, message: Bytes::copy_from_slice(body) })
}

/// a raw echo replier bound on `topic`; answers every Message with the same headers and "re:"+body
async fn echo_replier(conn: &RawConn, topic: &str) -> Result<tokio::task::JoinHandle<()>> {
    let (s, r) = conn.open(first_frame(2, topic), Duration::from_secs(8)).await?;
    if r != Some(Frame::Ok) {
        return Err(anyhow!("echo replier registration answered {:?}", r));
    }
    let (mut w, mut rd) = s.split();
    Ok(tokio::spawn(async move {
        while let Some(Ok(f)) = rd.next().await {
            if let Frame::Message(m) = f {
                let mut body = b"re:".to_vec();
                body.extend_from_slice(&m.message[..m.message.len().min(64)]);
                if w.send(Frame::Message(MessagePayload { headers: m.headers, message: body.into() })).await.is_err() {
                    break;
                }
            }
        }
    }))
}

/// well-behaved request/reply round trip on `topic` through a fresh raw requestor
async fn reqrep_roundtrip(conn: &RawConn, topic: &str, tag: &str) -> std::result::Result<(), String> {
    let (mut s, r) = conn.open(first_frame(3, topic), Duration::from_secs(8)).await.map_err(|e| format!("open requestor: {e}"))?;
    if r != Some(Frame::Ok) {
        return Err(format!("requestor registration answered {:?}", r));
    }
    let deadline = std::time::Instant::now() + Duration::from_secs(12);
    let mut n = 0;
    while std::time::Instant::now() < deadline {
        n += 1;
        let mut h = HashMap::new();
        h.insert("req_id".to_string(), n.to_string());
        let body = format!("{}-{}", tag, n);
        s.send(msg(Some(h), body.as_bytes())).await.map_err(|e| format!("send request: {e}"))?;
        match tokio::time::timeout(Duration::from_millis(400), s.next()).await {
            Ok(Some(Ok(Frame::Message(m)))) => {
                if m.message.starts_with(b"re:") && m.message[3..].starts_with(tag.as_bytes()) {
                    return Ok(());
                }
                return Err(format!("round trip returned a foreign reply {:?}", String::from_utf8_lossy(&m.message)));
            }
            Ok(Some(Ok(other))) => return Err(format!("round trip returned {:?}", other)),
            Ok(Some(Err(e))) => return Err(format!("requestor stream error: {e}")),
            Ok(None) => return Err("requestor stream closed by the server".into()),
            Err(_) => {}
        }
    }
    Err("no reply within 12 s (requests re-sent every 400 ms)".into())
}

/// well-behaved pub/sub round trip on `topic` through fresh raw peers
async fn pubsub_roundtrip(conn: &RawConn, topic: &str, tag: &str) -> std::result::Result<(), String> {
    let (mut sub, r) = conn.open(first_frame(1, topic), Duration::from_secs(8)).await.map_err(|e| format!("open subscriber: {e}"))?;
    if r != Some(Frame::Ok) {
        return Err(format!("subscriber registration answered {:?}", r));
    }
    let (mut publ, r) = conn.open(first_frame(0, topic), Duration::from_secs(8)).await.map_err(|e| format!("open publisher: {e}"))?;
    if r != Some(Frame::Ok) {
        return Err(format!("publisher registration answered {:?}", r));
    }
    let deadline = std::time::Instant::now() + Duration::from_secs(12);
    let mut n = 0;
    while std::time::Instant::now() < deadline {
        n += 1;
        publ.send(msg(None, format!("{}-{}", tag, n).as_bytes())).await.map_err(|e| format!("publish: {e}"))?;
        let t = std::time::Instant::now();
        while t.elapsed() < Duration::from_millis(300) {
            match tokio::time::timeout(Duration::from_millis(300), sub.next()).await {
                Ok(Some(Ok(Frame::Message(m)))) if m.message.starts_with(tag.as_bytes()) => return Ok(()),
                Ok(Some(Ok(_))) => {} // frames of earlier hostile publishers may still be in flight
                Ok(Some(Err(e))) => return Err(format!("subscriber stream error: {e}")),
                Ok(None) => return Err("subscriber stream closed by the server".into()),
                Err(_) => break,
            }
        }
    }
    Err("published messages never reached a fresh subscriber within 12 s".into())
}

struct V(String, String);

async fn first_frame_matrix(addr: SocketAddr, certs: &Certs, rep_counts: &mut HashMap<String, u64>) -> std::result::Result<Vec<V>, String> {
    let mut viols = vec![];
    let conn = raw_connect(addr, certs).await.map_err(|e| format!("connect: {e}"))?;
    // topics with an established pattern
    let ps_topic = "/c11mx/pubsub-topic";
    let rr_topic = "/c11mx/reqrep-topic";
    let (_keep_sub, r) = conn.open(first_frame(1, ps_topic), Duration::from_secs(8)).await.map_err(|e| e.to_string())?;
    if r != Some(Frame::Ok) {
        return Err(format!("setup: subscriber registration answered {:?}", r));
    }
    let _echo = echo_replier(&conn, rr_topic).await.map_err(|e| e.to_string())?;
    reqrep_roundtrip(&conn, rr_topic, "setup").await.map_err(|e| format!("setup round trip: {e}"))?;
    for state in ["fresh", "existing-pubsub", "existing-reqrep"] {
        for kind in 0..8usize {
            let fresh = format!("/c11mx/fresh-{}-{}", state.len(), kind);
            let topic = match state {
                "fresh" => fresh.as_str(),
                "existing-pubsub" => ps_topic,
                _ => rr_topic,
            };
            let cell = format!("{} first on {} topic", KIND_NAMES[kind], state);
            let c2 = raw_connect(addr, certs).await.map_err(|e| format!("connect: {e}"))?;
            let opened = c2.open(first_frame(kind, topic), Duration::from_secs(6)).await;
            let (mut stream, reply) = match opened {
                Ok(x) => x,
                Err(e) => {
                    viols.push(V("open-unanswered".into(), format!("{}: the stream was neither accepted nor refused: {}", cell, e)));
                    continue;
                }
            };
            let is_reg = kind < 4;
            let frame_is_pubsub = kind < 2;
            let expect_served = is_reg && (state == "fresh" || (state == "existing-pubsub") == frame_is_pubsub);
            *rep_counts.entry(format!("first-frame-cells/{}", state)).or_insert(0) += 1;
            match reply {
                Some(Frame::Error(e)) => {
                    if expect_served && !(kind == 2 && e.code == REPLIER_ALREADY_BOUND) {
                        viols.push(V("refused-valid-open".into(), format!("{}: refused with error code {} ({})", cell, e.code, String::from_utf8_lossy(&e.message))));
                    }
                    // explicitly refused with a code: fine
                }
                Some(Frame::Ok) => {
                    if !expect_served {
                        // accepted although it cannot be served in that role: must not be silently abandoned.
                        // Give the server a moment: a later Error frame is an explicit refusal too.
                        match tokio::time::timeout(Duration::from_secs(2), stream.next()).await {
                            Ok(Some(Ok(Frame::Error(_)))) => {}
                            other => viols.push(V(
                                "accepted-then-abandoned".into(),
                                format!("{}: the server answered Ok although the stream cannot be served in that role; afterwards the stream showed {:?}", cell, other.map(|o| o.map(|r| r.map(|f| f.get_type())))),
                            )),
                        }
                        continue;
                    }
                    // demonstrate service in the requested role
                    let served: std::result::Result<(), String> = match kind {
                        0 => {
                            // publisher: a fresh subscriber must receive what it publishes
                            let (mut sub, r) = conn.open(first_frame(1, topic), Duration::from_secs(6)).await.map_err(|e| e.to_string())?;
                            if r != Some(Frame::Ok) {
                                Err(format!("helper subscriber answered {:?}", r))
                            } else {
                                let mut ok = Err("published frames never arrived".to_string());
                                for n in 0..30 {
                                    let _ = stream.send(msg(None, format!("served-{}", n).as_bytes())).await;
                                    if let Ok(Some(Ok(Frame::Message(m)))) = tokio::time::timeout(Duration::from_millis(300), sub.next()).await {
                                        if m.message.starts_with(b"served-") {
                                            ok = Ok(());
                                            break;
                                        }
                                    }
                                }
                                ok
                            }
                        }
                        1 => {
                            let (mut p, r) = conn.open(first_frame(0, topic), Duration::from_secs(6)).await.map_err(|e| e.to_string())?;
                            if r != Some(Frame::Ok) {
                                Err(format!("helper publisher answered {:?}", r))
                            } else {
                                let mut ok = Err("nothing arrived at the subscriber".to_string());
                                for n in 0..30 {
                                    let _ = p.send(msg(None, format!("served-{}", n).as_bytes())).await;
                                    if let Ok(Some(Ok(Frame::Message(m)))) = tokio::time::timeout(Duration::from_millis(300), stream.next()).await {
                                        if m.message.starts_with(b"served-") {
                                            ok = Ok(());
                                            break;
                                        }
                                    }
                                }
                                ok
                            }
                        }
                        2 => {
                            if state == "existing-reqrep" {
                                // a second replier: Ok must be followed by the replier-already-bound error
                                match tokio::time::timeout(Duration::from_secs(6), stream.next()).await {
                                    Ok(Some(Ok(Frame::Error(e)))) if e.code == REPLIER_ALREADY_BOUND => Ok(()),
                                    other => Err(format!("second replier saw {:?} instead of the replier-already-bound error", other.map(|o| o.map(|r| r.map(|f| f.get_type()))))),
                                }
                            } else {
                                // fresh topic: this replier must receive a request
                                let (mut rq, r) = conn.open(first_frame(3, topic), Duration::from_secs(6)).await.map_err(|e| e.to_string())?;
                                if r != Some(Frame::Ok) {
                                    Err(format!("helper requestor answered {:?}", r))
                                } else {
                                    let mut ok = Err("no request reached the replier".to_string());
                                    for n in 0..30 {
                                        let mut h = HashMap::new();
                                        h.insert("req_id".to_string(), n.to_string());
                                        let _ = rq.send(msg(Some(h), b"served?")).await;
                                        if let Ok(Some(Ok(Frame::Message(m)))) = tokio::time::timeout(Duration::from_millis(300), stream.next()).await {
                                            if &m.message[..] == b"served?" {
                                                ok = Ok(());
                                                break;
                                            }
                                        }
                                    }
                                    ok
                                }
                            }
                        }
                        _ => {
                            // requestor: needs a replier; on a fresh topic bind an echo replier first
                            let _e = if state == "fresh" { Some(echo_replier(&conn, topic).await.map_err(|e| e.to_string())?) } else { None };
                            let mut ok = Err("no reply came back".to_string());
                            for n in 0..30 {
                                let mut h = HashMap::new();
                                h.insert("req_id".to_string(), n.to_string());
                                let _ = stream.send(msg(Some(h), b"served?")).await;
                                if let Ok(Some(Ok(Frame::Message(m)))) = tokio::time::timeout(Duration::from_millis(300), stream.next()).await {
                                    if m.message.starts_with(b"re:served?") {
                                        ok = Ok(());
                                        break;
                                    }
                                }
                            }
                            ok
                        }
                    };
                    if let Err(e) = served {
                        viols.push(V("accepted-but-not-served".into(), format!("{}: answered Ok but the stream is not served in that role: {}", cell, e)));
                    }
                }
                Some(other) => viols.push(V("open-odd-reply".into(), format!("{}: first reply was {:?}", cell, other))),
                None => viols.push(V("silently-dropped".into(), format!("{}: the server closed the stream without any reply frame", cell))),
            }
        }
    }
    // the topics used above must still work
    if let Err(e) = pubsub_roundtrip(&conn, ps_topic, "after-matrix").await {
        viols.push(V("topic-unusable-after".into(), format!("pub/sub topic unusable after the first-frame matrix: {}", e)));
    }
    if let Err(e) = reqrep_roundtrip(&conn, rr_topic, "after-matrix").await {
        viols.push(V("topic-unusable-after".into(), format!("req/rep topic unusable after the first-frame matrix: {}", e)));
    }
    Ok(viols)
}

/// hostile frame sequences mid-stream, each followed by a well-behaved round trip on the same topic
async fn midstream(addr: SocketAddr, certs: &Certs, rng: &mut Rng, rounds: usize, rep_counts: &mut HashMap<String, u64>) -> std::result::Result<Vec<V>, String> {
    let mut viols = vec![];
    for round in 0..rounds {
        // a fresh helper connection per round (quinn allows 100 concurrent streams per connection)
        let conn = raw_connect(addr, certs).await.map_err(|e| format!("connect: {e}"))?;
        let topic = format!("/c11ms/round-{}", round);
        let pstopic = format!("/c11ms/ps-round-{}", round);
        let _echo = echo_replier(&conn, &topic).await.map_err(|e| e.to_string())?;
        reqrep_roundtrip(&conn, &topic, "pre").await.map_err(|e| format!("setup round trip: {e}"))?;
        let hostile_conn = raw_connect(addr, certs).await.map_err(|e| format!("connect: {e}"))?;
        let which = round % 4;
        let mut described = String::new();
        match which {
            0 => {
                // requestor stream: every frame kind, then requests at the frame limit
                let (mut s, r) = hostile_conn.open(first_frame(3, &topic), Duration::from_secs(6)).await.map_err(|e| e.to_string())?;
                if r != Some(Frame::Ok) {
                    return Err(format!("hostile requestor registration answered {:?}", r));
                }
                for k in 0..8 {
                    if s.send(first_frame(k, &topic)).await.is_err() {
                        break;
                    }
                }
                described = "requestor sent all 8 frame kinds".into();
                *rep_counts.entry("midstream/requestor-all-kinds".into()).or_insert(0) += 1;
            }
            1 => {
                // requests that fit the limit only before the server adds its routing tag
                let (mut s, r) = hostile_conn.open(first_frame(3, &topic), Duration::from_secs(6)).await.map_err(|e| e.to_string())?;
                if r != Some(Frame::Ok) {
                    return Err(format!("hostile requestor registration answered {:?}", r));
                }
                for d in [0usize, 1, 8, 20, 27, 28, 29, 40, 64] {
                    // encoded Message with headers {req_id: "1"}: 1 + 8 + (8+6) + (8+1) + 8 + payload
                    let fixed = 1 + 8 + 14 + 9 + 8;
                    let n = LIMIT - fixed - d;
                    let mut h = HashMap::new();
                    h.insert("req_id".to_string(), "1".to_string());
                    let body = vec![0x61u8; n];
                    if s.send(msg(Some(h), &body)).await.is_err() {
                        break;
                    }
                    // and without headers: 1 + 8 + payload
                    let n2 = LIMIT - 9 - d;
                    let body2 = vec![0x62u8; n2];
                    if s.send(msg(None, &body2)).await.is_err() {
                        break;
                    }
                }
                described = "requestor sent requests of limit−{0..64} bytes (grow past the limit once tagged)".into();
                *rep_counts.entry("midstream/near-limit-requests".into()).or_insert(0) += 1;
            }
            2 => {
                // a second (rejected) replier and a hostile bound replier on another topic
                let t2 = format!("/c11ms/hostile-replier-{}", round);
                let (mut s, r) = hostile_conn.open(first_frame(2, &t2), Duration::from_secs(6)).await.map_err(|e| e.to_string())?;
                if r != Some(Frame::Ok) {
                    return Err(format!("hostile replier registration answered {:?}", r));
                }
                // a requestor whose requests reach the hostile replier
                let (mut rq, _) = conn.open(first_frame(3, &t2), Duration::from_secs(6)).await.map_err(|e| e.to_string())?;
                let mut h = HashMap::new();
                h.insert("req_id".to_string(), "1".to_string());
                let _ = rq.send(msg(Some(h), b"to hostile replier")).await;
                let _ = tokio::time::timeout(Duration::from_secs(2), s.next()).await;
                for k in 0..8 {
                    if s.send(first_frame(k, &t2)).await.is_err() {
                        break;
                    }
                }
                for cid in ["", "abc", "-1", "99999999999999999999999", "4294967296", " 0", "0 "] {
                    let mut h = HashMap::new();
                    h.insert("cid".to_string(), cid.to_string());
                    let _ = s.send(msg(Some(h), b"bad tag")).await;
                }
                let _ = s.send(msg(None, b"no headers")).await;
                let _ = s.send(msg(Some(HashMap::new()), b"empty headers")).await;
                drop(s);
                // the topic of the hostile replier must accept a new replier and serve
                tokio::time::sleep(Duration::from_millis(200)).await;
                let mut bound = None;
                for _ in 0..40 {
                    match echo_replier(&conn, &t2).await {
                        Ok(h) => {
                            // registration Ok; a rejection would arrive as an Error frame which ends the echo task
                            bound = Some(h);
                            match reqrep_roundtrip(&conn, &t2, "after-hostile-replier").await {
                                Ok(()) => break,
                                Err(_) => {
                                    bound = None;
                                    tokio::time::sleep(Duration::from_millis(250)).await;
                                }
                            }
                        }
                        Err(_) => tokio::time::sleep(Duration::from_millis(250)).await,
                    }
                }
                if bound.is_none() {
                    viols.push(V("topic-unusable-after".into(), format!("round {}: after a replier sent hostile frames and left, no new replier could serve its topic within 10 s", round)));
                }
                described = "bound replier sent all 8 frame kinds and malformed routing tags, then left".into();
                *rep_counts.entry("midstream/hostile-replier".into()).or_insert(0) += 1;
            }
            _ => {
                // publisher stream: every frame kind incl. frames at the limit
                let (mut s, r) = hostile_conn.open(first_frame(0, &pstopic), Duration::from_secs(6)).await.map_err(|e| e.to_string())?;
                if r != Some(Frame::Ok) {
                    return Err(format!("hostile publisher registration answered {:?}", r));
                }
                for k in 0..8 {
                    if s.send(first_frame(k, &pstopic)).await.is_err() {
                        break;
                    }
                }
                let n = LIMIT - 9 - rng.below(3) as usize;
                let _ = s.send(msg(None, &vec![0x63u8; n])).await;
                let _ = s.send(Frame::BatchMessage(Bytes::from(vec![0u8; LIMIT]))).await;
                described = "publisher sent all 8 frame kinds and frames at the limit".into();
                *rep_counts.entry("midstream/hostile-publisher".into()).or_insert(0) += 1;
            }
        }
        tokio::time::sleep(Duration::from_millis(150)).await;
        let after = if which == 3 { pubsub_roundtrip(&conn, &pstopic, "after-hostile").await } else { reqrep_roundtrip(&conn, &topic, "after-hostile").await };
        if let Err(e) = after {
            viols.push(V("topic-unusable-after".into(), format!("round {} ({}): a well-behaved round trip on the same topic failed afterwards: {}", round, described, e)));
        }
    }
    Ok(viols)
}

/// through the client library: an Error first frame surfaces as Err(OpenStream(code, …))
async fn library_reports(addr: SocketAddr, certs: &Certs) -> std::result::Result<Vec<V>, String> {
    let mut viols = vec![];
    let conn = raw_connect(addr, certs).await.map_err(|e| format!("connect: {e}"))?;
    let rr = "/c11lib/reqrep";
    let ps = "/c11lib/pubsub";
    let _e = echo_replier(&conn, rr).await.map_err(|e| e.to_string())?;
    let (_s, r) = conn.open(first_frame(1, ps), Duration::from_secs(6)).await.map_err(|e| e.to_string())?;
    if r != Some(Frame::Ok) {
        return Err(format!("setup subscriber answered {:?}", r));
    }
    let client = lib_client(&addr.to_string(), certs, Some(selium::keep_alive::BackoffStrategy::constant().with_max_attempts(1).with_step(Duration::from_millis(10)))).await.map_err(|e| format!("lib connect: {e}"))?;
    let check = |name: &str, r: std::result::Result<(), SeliumError>, viols: &mut Vec<V>| match r {
        Err(SeliumError::OpenStream(code, _)) => {
            let _ = code;
        }
        Err(other) => viols.push(V("library-misreports-refusal".into(), format!("{}: the refusal surfaced as {:?} instead of an OpenStream error with the server's code", name, other.to_string()))),
        Ok(()) => viols.push(V("library-accepts-refused-open".into(), format!("{}: open() returned Ok although the topic is used in the other messaging pattern", name))),
    };
    let r = tokio::time::timeout(Duration::from_secs(10), client.subscriber(rr).with_decoder(StringCodec).open()).await;
    match r {
        Ok(r) => check("subscriber on a req/rep topic", r.map(|_| ()), &mut viols),
        Err(_) => viols.push(V("library-open-hangs".into(), "subscriber.open() on a req/rep topic did not return within 10 s".into())),
    }
    let r = tokio::time::timeout(Duration::from_secs(10), client.publisher(rr).with_encoder(StringCodec).open()).await;
    match r {
        Ok(r) => check("publisher on a req/rep topic", r.map(|_| ()), &mut viols),
        Err(_) => viols.push(V("library-open-hangs".into(), "publisher.open() on a req/rep topic did not return within 10 s".into())),
    }
    let r = tokio::time::timeout(Duration::from_secs(10), client.requestor(ps).with_request_encoder(StringCodec).with_reply_decoder(StringCodec).open()).await;
    match r {
        Ok(r) => check("requestor on a pub/sub topic", r.map(|_| ()), &mut viols),
        Err(_) => viols.push(V("library-open-hangs".into(), "requestor.open() on a pub/sub topic did not return within 10 s".into())),
    }
    Ok(viols)
}

pub fn run(rep: &mut StageReport, tier: &str, seed: u64) {
    let thorough = tier == "thorough";
    let rounds = if thorough { 48 } else { 8 };
    let reps = if thorough { 6 } else { 1 };
    let rt = runtime(4);
    let mark = panic_mark();
    let mut rng = Rng::new(seed ^ 0xC11);
    let mut counts: HashMap<String, u64> = HashMap::new();
    let mut pipelined = 0u64;
    let mut lib_refusals = 0u64;
    let mut racing = 0u64;
    let mut unicode_regs = 0u64;
    for r in 0..reps {
        let certs = match gen_certs() {
            Ok(c) => c,
            Err(e) => {
                rep.inconclusive(&format!("certificate generation failed: {e}"));
                continue;
            }
        };
        let out = rt.block_on(async {
            let server = start_server(&certs).map_err(|e| format!("server start: {e}"))?;
            let mut v = vec![];
            let a = tokio::time::timeout(Duration::from_secs(240), first_frame_matrix(server.addr, &certs, &mut counts)).await.map_err(|_| "watchdog: first-frame matrix did not finish in 240 s".to_string())??;
            v.extend(a);
            let b = tokio::time::timeout(Duration::from_secs(600), midstream(server.addr, &certs, &mut rng, rounds, &mut counts)).await.map_err(|_| "watchdog: mid-stream rounds did not finish in 600 s".to_string())??;
            v.extend(b);
            let c = tokio::time::timeout(Duration::from_secs(60), library_reports(server.addr, &certs)).await.map_err(|_| "watchdog: library checks did not finish in 60 s".to_string())??;
            v.extend(c);
            let (n, f) = tokio::time::timeout(Duration::from_secs(120), super::wirepeers::c11_pipelined(server.addr, &certs, r as u64)).await.map_err(|_| "watchdog: pipelined-registration scenario did not finish in 120 s".to_string())??;
            pipelined += n;
            for (sig, detail) in f {
                v.push(V(sig, detail));
            }
            let (n, f) = tokio::time::timeout(Duration::from_secs(300), super::wirepeers::concurrent_first_registrations(server.addr, &certs, if thorough { 150 } else { 45 }, 100 + r as u64)).await.map_err(|_| "watchdog: concurrent-registration scenario did not finish in 300 s".to_string())??;
            racing += n;
            for (sig, detail) in f {
                v.push(V(sig, detail));
            }
            let (_n, f) = tokio::time::timeout(Duration::from_secs(120), super::wirepeers::c01_pipelined_and_half_closed(server.addr, &certs, 200 + r as u64)).await.map_err(|_| "watchdog: half-closed subscriber scenario did not finish in 120 s".to_string())??;
            for (sig, detail) in f {
                v.push(V(format!("accepted-then-abandoned/{}", sig), detail));
            }
            for (k, idle) in (if thorough { vec![24usize, 17, 70] } else { vec![24usize] }).into_iter().enumerate() {
                let (_n, f) = tokio::time::timeout(Duration::from_secs(300), super::wirepeers::c11_idle_sibling_streams(server.addr, &certs, idle, (r * 10 + k) as u64)).await.map_err(|_| "watchdog: slow-sibling scenario did not finish in 300 s".to_string())??;
                for (sig, detail) in f {
                    v.push(V(sig, detail));
                }
            }
            let (n, f) = tokio::time::timeout(Duration::from_secs(120), super::wirepeers::c11_unicode_names(server.addr, &certs)).await.map_err(|_| "watchdog: non-ASCII name registrations did not finish in 120 s".to_string())??;
            unicode_regs += n;
            for (sig, detail) in f {
                v.push(V(sig, detail));
            }
            let (n, f) = tokio::time::timeout(Duration::from_secs(240), super::wirepeers::c11_library_reports_refusals(&certs)).await.map_err(|_| "watchdog: library-refusal scenario did not finish in 240 s".to_string())??;
            lib_refusals += n;
            for (sig, detail) in f {
                v.push(V(sig, detail));
            }
            server.stop();
            Ok::<Vec<V>, String>(v)
        });
        rep.evaluations += 24 + rounds as u64 + 3 + 6 + 32 + 54;
        match out {
            Ok(viols) => {
                if viols.is_empty() {
                    for i in 0..(24 + rounds as u64 + 3 + 6 + 32 + 54) {
                        rep.distinct.insert(crate::common::mix(r as u64, i));
                    }
                }
                for v in viols {
                    let signature = format!("C11/server/{}", v.0);
                    let already = rep.violations.iter().filter(|x| x.signature == signature).count();
                    let replay = if already < 2 { write_replay("C11", &v.0, r as u64, json!({"property": "C11", "detail": v.1})) } else { String::new() };
                    rep.violation(Violation { signature, detail: v.1, replay });
                }
            }
            Err(e) => rep.inconclusive(&e),
        }
    }
    for p in repo_panics_since(mark) {
        rep.violation(Violation { signature: format!("C11/server/panic/{}", crate::routersim::exec::normalise_location(&p.location)), detail: format!("panic in thread {} at {}: {}", p.thread, p.location, p.message), replay: String::new() });
    }
    for (k, v) in counts {
        rep.count(&k, v);
    }
    rep.count("pipelined_registration_cases(independent wire peer)", pipelined);
    rep.count("library_open_calls_answered_with_error_frames(hand-written server)", lib_refusals);
    rep.count("registrations_with_non_ascii_names", unicode_regs);
    rep.count("fresh_topics_with_racing_first_registrations", racing);
    rep.sample(json!({"first_frame_matrix": "8 first-frame kinds × {fresh, existing pub/sub, existing req/rep} topic: each stream must be served in its role (demonstrated by traffic) or refused by an Error frame with a code", "midstream_rounds": rounds}));
    rep.sample(json!({"midstream_round_kinds": ["requestor sends all 8 frame kinds", "requests of limit−{0..64} bytes", "bound replier sends all kinds + malformed tags then leaves (a new replier must serve)", "publisher sends all kinds + frames at the limit"], "after_each": "well-behaved round trip on the same topic; panic log must stay empty"}));
    rep.rule = "one evaluation = one cell of the first-frame matrix (8 kinds × 3 topic states), one hostile mid-stream round followed by a well-behaved round trip on the same topic, or one client-library refusal check; raw quinn peers speaking BiStream/Frame against an in-process server; distinct = distinct cell/round".into();
}

pub mod common;
pub mod routersim;

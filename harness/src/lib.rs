pub mod common;
pub mod wiregen;
pub mod routersim;
pub mod testbed;

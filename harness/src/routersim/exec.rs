//! Manual wake-driven executor pieces: the waker flag, a guarded poll (catch_unwind + spin
//! tripwire + panic location capture) and a CPU-time watchdog for polls that never return
//! without touching any mock.

use super::world::{lock, EvKind, PollRes, Shared, SpinMarker};
use std::cell::RefCell;
use std::future::Future;
use std::panic::{catch_unwind, AssertUnwindSafe};
use std::pin::Pin;
use std::sync::atomic::{AtomicBool, AtomicU64, Ordering};
use std::sync::{Arc, Mutex, Once};
use std::task::{Context, Poll, Wake, Waker};

pub struct WakeFlag {
    pub woken: AtomicBool,
    pub wakes: AtomicU64,
}

impl WakeFlag {
    pub fn new() -> Arc<Self> {
        Arc::new(WakeFlag {
            woken: AtomicBool::new(false),
            wakes: AtomicU64::new(0),
        })
    }
    pub fn is_woken(&self) -> bool {
        self.woken.load(Ordering::SeqCst)
    }
    pub fn set(&self) {
        self.woken.store(true, Ordering::SeqCst);
    }
}

impl Wake for WakeFlag {
    fn wake(self: Arc<Self>) {
        self.woken.store(true, Ordering::SeqCst);
        self.wakes.fetch_add(1, Ordering::SeqCst);
    }
    fn wake_by_ref(self: &Arc<Self>) {
        self.woken.store(true, Ordering::SeqCst);
        self.wakes.fetch_add(1, Ordering::SeqCst);
    }
}

thread_local! {
    static LAST_PANIC: RefCell<Option<(String, String)>> = const { RefCell::new(None) };
    static STAMP: RefCell<Option<Arc<WorkerStamp>>> = const { RefCell::new(None) };
}

static HOOK: Once = Once::new();

/// Install a process-wide panic hook that records (location, message) per thread and stays
/// silent (the routers are expected to panic on a defective tree; the catch site reports).
pub fn install_panic_hook() {
    HOOK.call_once(|| {
        let default = std::panic::take_hook();
        std::panic::set_hook(Box::new(move |info| {
            let loc = info
                .location()
                .map(|l| format!("{}:{}", l.file(), l.line()))
                .unwrap_or_else(|| "<unknown>".into());
            let msg = if let Some(s) = info.payload().downcast_ref::<&str>() {
                s.to_string()
            } else if let Some(s) = info.payload().downcast_ref::<String>() {
                s.clone()
            } else {
                "<non-string panic payload>".to_string()
            };
            let in_router = LAST_PANIC.with(|c| {
                let mut c = c.borrow_mut();
                *c = Some((loc.clone(), msg.clone()));
                true
            });
            let quiet = std::env::var("VERIF_PANIC_VERBOSE").is_err();
            if !(in_router && quiet) {
                default(info);
            }
        }));
    });
}

pub fn take_last_panic() -> Option<(String, String)> {
    LAST_PANIC.with(|c| c.borrow_mut().take())
}

/// Make the location of a panic stable across checkouts: strip everything before the
/// repository-relative path.
pub fn normalise_location(loc: &str) -> String {
    for marker in ["/repo/", "selium/"] {
        if let Some(i) = loc.find(marker) {
            return loc[i + marker.len()..].to_string();
        }
    }
    if let Some(i) = loc.find(".cargo/registry/src/") {
        let rest = &loc[i + ".cargo/registry/src/".len()..];
        if let Some(j) = rest.find('/') {
            return format!("dep:{}", &rest[j + 1..]);
        }
    }
    loc.to_string()
}

// ---------------------------------------------------------------------------------------
// CPU-time watchdog: a poll that burns > limit seconds of *thread CPU time* without returning
// (and without tripping the mock-call budget) is an infinite loop that touches no mock.
// ---------------------------------------------------------------------------------------
pub struct WorkerStamp {
    pub in_poll: AtomicBool,
    pub poll_seq: AtomicU64,
    pub run_seed: AtomicU64,
    pub clock: i32,
}

static STAMPS: Mutex<Vec<Arc<WorkerStamp>>> = Mutex::new(Vec::new());

#[cfg(not(miri))]
fn thread_cpu_clock() -> i32 {
    let mut clk: libc::clockid_t = 0;
    unsafe {
        libc::pthread_getcpuclockid(libc::pthread_self(), &mut clk);
    }
    clk
}
#[cfg(miri)]
fn thread_cpu_clock() -> i32 {
    0
}

pub fn register_worker() -> Arc<WorkerStamp> {
    let s = Arc::new(WorkerStamp {
        in_poll: AtomicBool::new(false),
        poll_seq: AtomicU64::new(0),
        run_seed: AtomicU64::new(0),
        clock: thread_cpu_clock(),
    });
    STAMPS.lock().unwrap().push(s.clone());
    STAMP.with(|c| *c.borrow_mut() = Some(s.clone()));
    s
}

pub fn set_run_seed(seed: u64) {
    STAMP.with(|c| {
        if let Some(s) = c.borrow().as_ref() {
            s.run_seed.store(seed, Ordering::SeqCst);
        }
    });
}

#[cfg(not(miri))]
fn cpu_seconds(clock: i32) -> f64 {
    let mut ts = libc::timespec { tv_sec: 0, tv_nsec: 0 };
    unsafe {
        libc::clock_gettime(clock, &mut ts);
    }
    ts.tv_sec as f64 + ts.tv_nsec as f64 * 1e-9
}

/// Spawn the watchdog thread. `on_hang(run_seed)` is called once when a poll has consumed more
/// than `limit_s` CPU seconds; it is expected to write a report and exit the process.
#[cfg(not(miri))]
pub fn spawn_cpu_watchdog(limit_s: f64, on_hang: Box<dyn Fn(u64) + Send>) {
    std::thread::spawn(move || {
        let mut seen: Vec<(u64, f64)> = vec![];
        loop {
            std::thread::sleep(std::time::Duration::from_millis(500));
            let stamps = STAMPS.lock().unwrap().clone();
            seen.resize(stamps.len(), (u64::MAX, 0.0));
            for (i, s) in stamps.iter().enumerate() {
                if !s.in_poll.load(Ordering::SeqCst) {
                    seen[i] = (u64::MAX, 0.0);
                    continue;
                }
                let seq = s.poll_seq.load(Ordering::SeqCst);
                let cpu = cpu_seconds(s.clock);
                if seen[i].0 != seq {
                    seen[i] = (seq, cpu);
                } else if cpu - seen[i].1 > limit_s {
                    on_hang(s.run_seed.load(Ordering::SeqCst));
                    return;
                }
            }
        }
    });
}
#[cfg(miri)]
pub fn spawn_cpu_watchdog(_limit_s: f64, _on_hang: Box<dyn Fn(u64) + Send>) {}

/// Poll the router once under the monitors. `budget` = number of mock calls this poll may make.
pub fn guarded_poll<F: Future<Output = ()> + ?Sized>(
    fut: Pin<&mut F>,
    sh: &Shared,
    flag: &Arc<WakeFlag>,
    budget: i64,
    poll_no: u64,
) -> PollRes {
    {
        let mut w = lock(sh);
        w.budget = budget;
        w.budget_tripped = false;
        w.push(EvKind::PollBegin(poll_no));
    }
    flag.woken.store(false, Ordering::SeqCst);
    let waker = Waker::from(flag.clone());
    let mut cx = Context::from_waker(&waker);
    let _ = take_last_panic();
    STAMP.with(|c| {
        if let Some(s) = c.borrow().as_ref() {
            s.poll_seq.fetch_add(1, Ordering::SeqCst);
            s.in_poll.store(true, Ordering::SeqCst);
        }
    });
    let r = catch_unwind(AssertUnwindSafe(|| fut.poll(&mut cx)));
    STAMP.with(|c| {
        if let Some(s) = c.borrow().as_ref() {
            s.in_poll.store(false, Ordering::SeqCst);
        }
    });
    let res = match r {
        Ok(Poll::Pending) => PollRes::Pending,
        Ok(Poll::Ready(())) => PollRes::Ready,
        Err(payload) => {
            if payload.is::<SpinMarker>() {
                PollRes::Spin
            } else {
                PollRes::Panic
            }
        }
    };
    let mut w = lock(sh);
    w.budget = i64::MAX;
    w.push(EvKind::PollEnd(res));
    res
}

//! L1 simulation of the real `selium_server::topic::pubsub::Topic` (with its `FanoutMany`).
//!
//! Families:
//!  * `c01`  – no faults; all ready/pending/cooperative interleavings; delivery oracle
//!  * `c08`  – sink faults at every operation, publisher stream errors/ends
//!  * `c09`  – every role combination, strictly wake-driven (no spurious polls), mini-settles
//!  * `c16`  – the registration channel is closed at a random step; termination + flush
//!  * `c11`  – publishers send frames of all kinds (the router must simply relay or skip them)

use super::exec::{guarded_poll, normalise_location, set_run_seed, take_last_panic, WakeFlag};
use super::world::*;
use super::{dump_world, hash_log, Finding, RunResult, RunStats};
use crate::common::Rng;
use bytes::Bytes;
use futures::channel::mpsc::Sender;
use selium_protocol::{ErrorPayload, Frame, MessagePayload};
use selium_server::topic::pubsub::{Socket, Topic};
use selium_std::errors::SeliumError;
use serde_json::json;
use std::collections::HashMap;
use std::future::Future;
use std::pin::Pin;
use std::sync::{Arc, Mutex};

type Tx = Sender<Socket<Frame, SeliumError>>;

#[derive(Clone, Debug)]
struct Cfg {
    n_pubs: usize,
    n_subs: usize,
    items: Vec<u32>,
    steps: usize,
    spurious: bool,
    close_at: Option<usize>,
    close_at_end: bool,
    mini_settle: bool,
    pub_err: bool,
    hostile_frames: bool,
    faults: bool,
    sink_profiles: Vec<u8>,
    /// number of peers whose registration is queued before the router is polled for the first time
    prefill: usize,
    /// (step, count): `count` peers register back to back between two polls, some of the publishers among them
    /// already have an item ready, and the router is then left alone until it is quiescent
    storm: Option<(usize, usize)>,
    /// (step, count): `count` publisher streams fail between two polls while a few healthy publishers have an item
    /// ready; the router is then left alone until quiescent
    err_storm: Option<(usize, usize)>,
    /// close the registration channel when the n-th item is yielded, i.e. in the middle of a router poll
    close_on_yield: Option<u64>,
}

fn payload(peer: usize, seq: u32, rng: &mut Rng) -> Bytes {
    let mut v = format!("V1|p={}|s={}|", peer, seq).into_bytes();
    let extra = match rng.below(6) {
        0 => 0,
        1 => 1,
        2 => 17,
        3 => 200,
        _ => rng.below(40) as usize,
    };
    v.extend(rng.bytes(extra));
    Bytes::from(v)
}

fn sink_plan(profile: u8) -> SinkPlan {
    match profile {
        0 => SinkPlan::always_ready(),
        1 => SinkPlan { p_block: [30, 0, 0], p_coop: [0, 0, 0], fault: None },
        2 => SinkPlan { p_block: [0, 40, 20], p_coop: [0, 0, 0], fault: None },
        3 => SinkPlan { p_block: [0, 0, 0], p_coop: [30, 30, 30], fault: None },
        4 => SinkPlan { p_block: [50, 50, 50], p_coop: [10, 10, 10], fault: None },
        _ => SinkPlan { p_block: [15, 15, 15], p_coop: [10, 10, 10], fault: None },
    }
}

fn gen_cfg(rng: &mut Rng, family: &str) -> Cfg {
    let (n_pubs, n_subs) = match family {
        // registration bursts: dozens of mostly idle peers queue up between two polls
        // (one burst run in eight has a fan-out of 130–200 subscribers)
        "burst" => (rng.range(1, 70) as usize, if rng.below(8) == 0 { rng.range(130, 200) as usize } else { rng.below(70) as usize }),
        // one or two publishers with thousands of items available at once (a single poll relays a long burst)
        "firehose" => (rng.range(1, 2) as usize, rng.range(1, 3) as usize),
        // wide fan-out, dense traffic, (almost) every sink ready: what a router that sweeps its sinks in instalments
        // (per-poll budgets, resumable flushes) would have to get right, at 64/128/256-ish boundaries in particular
        "wide" => (rng.range(1, 3) as usize, match rng.below(4) { 0 => rng.range(62, 70), 1 => rng.range(126, 132), 2 => rng.range(129, 200), _ => rng.range(200, 330) } as usize),
        "c09" => (rng.below(4) as usize, rng.below(4) as usize),
        "c08" => (rng.range(1, 3) as usize, rng.range(1, 4) as usize),
        _ => (rng.range(1, 3) as usize, rng.below(5) as usize),
    };
    let items = (0..n_pubs).map(|_| if family == "wide" { rng.range(2, 6) as u32 } else if family == "burst" { (rng.below(4) == 0) as u32 } else if family == "firehose" { rng.range(900, 2600) as u32 } else { rng.below(5) as u32 }).collect();
    let steps = if family == "wide" { rng.range(6, 40) as usize } else if family == "burst" { rng.range(40, 260) as usize } else { rng.range(10, 70) as usize };
    let spurious = matches!(family, "c01" | "c08" | "c11") && rng.pct(30);
    let close_at = match family {
        "c16" => Some(rng.usize(steps)),
        "wide" if rng.pct(75) => Some(rng.range(2, steps as u64 - 1) as usize),
        "burst" if rng.pct(50) => Some(rng.usize(steps)),
        "c09" if rng.pct(30) => Some(rng.usize(steps)),
        _ => None,
    };
    let wide_all_ready = family == "wide" && rng.pct(80);
    let sink_profiles = (0..n_subs)
        .map(|_| if family == "wide" { if wide_all_ready || rng.pct(97) { 0 } else { rng.range(1, 5) as u8 } } else if rng.pct(35) { 0 } else { rng.range(1, 5) as u8 })
        .collect();
    Cfg {
        n_pubs,
        n_subs,
        items,
        steps,
        spurious,
        close_at,
        close_at_end: rng.pct(40),
        mini_settle: family == "c09" || rng.pct(20),
        pub_err: family == "c08",
        hostile_frames: family == "c11",
        faults: family == "c08" || (family == "c16" && rng.pct(30)),
        sink_profiles,
        prefill: if family == "wide" { if rng.pct(80) { n_pubs + n_subs } else { n_subs } } else if family == "burst" && rng.pct(60) { rng.usize(n_pubs + n_subs + 1) } else { 0 },
        err_storm: if family == "burst" && rng.pct(40) { Some((rng.usize(steps), rng.range(1, 40) as usize)) } else { None },
        close_on_yield: if family == "firehose" && rng.pct(50) { Some(rng.range(3, 700)) } else { None },
        storm: if family == "burst" && rng.pct(70) {
            let total = n_pubs + n_subs;
            let count = if rng.pct(50) { rng.range(1, total as u64) as usize } else { total - rng.usize(total.min(6)) };
            Some((if rng.pct(40) { 0 } else { rng.usize(steps) }, count))
        } else {
            None
        },
    }
}

struct Sim {
    sh: Shared,
    relay_after_close_reported: bool,
    flag: Arc<WakeFlag>,
    fut: Pin<Box<dyn Future<Output = ()>>>,
    tx: Tx,
    alive: bool,
    completed: bool,
    dead_reason: Option<PollRes>,
    poll_no: u64,
    stats: RunStats,
    findings: Vec<Finding>,
    pubs: Vec<usize>,
    subs: Vec<usize>,
    next_seq: HashMap<usize, u32>,
    closed: bool,
    rng: Rng,
    pay_index: HashMap<Vec<u8>, usize>,
    states: Vec<u64>,
    goals: Vec<&'static str>,
    registered: Vec<usize>,
    ok_used: bool,
}

impl Sim {
    fn budget(&self) -> i64 {
        let w = lock(&self.sh);
        let avail: usize = w
            .peers
            .iter()
            .filter_map(|p| p.stream.as_ref())
            .map(|s| s.queue.len() + 1)
            .sum();
        let peers = w.peers.len();
        (4 * (avail + peers + 8) * (3 * peers + 10)) as i64
    }

    fn poll(&mut self) {
        if !self.alive {
            self.flag.woken.store(false, std::sync::atomic::Ordering::SeqCst);
            return;
        }
        self.poll_no += 1;
        self.stats.polls += 1;
        let budget = self.budget();
        let res = guarded_poll(self.fut.as_mut(), &self.sh, &self.flag, budget, self.poll_no);
        let (closed_inside, after_close) = {
            let w = lock(&self.sh);
            (w.closed_at_yield, w.closed_at_yield.map_or(0, |k| w.yields - k))
        };
        if closed_inside.is_some() {
            self.closed = true;
            // a router that has been told to stop reads at most the item it was handling; one that keeps relaying
            // whatever its publishers supply finishes only when they run dry — or never
            // (a bounded drain of what is ready — a few hundred items — would be legitimate; relaying on for as long as
            // the publishers have supply is not)
            if after_close > 600 && !self.relay_after_close_reported {
                self.relay_after_close_reported = true;
                self.findings.push(Finding {
                    class: "shutdown",
                    sig: "pubsub/keeps-relaying-after-close".into(),
                    detail: format!(
                        "the registration channel was closed while the router was relaying (after item {}); the router took {} more items from its publishers without noticing — how long it keeps running is decided by the publishers' supply, not bounded",
                        closed_inside.unwrap(),
                        after_close
                    ),
                });
            }
        }
        match res {
            PollRes::Pending => {}
            PollRes::Ready => {
                self.alive = false;
                self.completed = true;
                self.dead_reason = Some(res);
                if !self.closed {
                    self.findings.push(Finding {
                        class: "shutdown",
                        sig: "pubsub/completed-without-close".into(),
                        detail: "router future completed although its registration channel is open".into(),
                    });
                }
            }
            PollRes::Panic => {
                self.alive = false;
                self.dead_reason = Some(res);
                self.stats.panics += 1;
                let (loc, msg) = take_last_panic().unwrap_or(("<unknown>".into(), "".into()));
                self.findings.push(Finding {
                    class: "panic",
                    sig: format!("pubsub/panic/{}", normalise_location(&loc)),
                    detail: format!("router poll #{} panicked at {}: {}", self.poll_no, loc, msg),
                });
            }
            PollRes::Spin => {
                self.alive = false;
                self.dead_reason = Some(res);
                self.stats.spins += 1;
                let st = self.role_state();
                self.findings.push(Finding {
                    class: "spin",
                    sig: format!("pubsub/spin/{}", st),
                    detail: format!(
                        "router poll #{} made more than {} mock calls without returning (state: {})",
                        self.poll_no, budget, st
                    ),
                });
            }
        }
        self.record_state(res);
    }

    fn role_state(&self) -> String {
        let w = lock(&self.sh);
        let pubs = self
            .pubs
            .iter()
            .filter(|p| w.peers[**p].reg_sent.is_some() && w.peers[**p].stream.as_ref().unwrap().end_seen.is_none())
            .count();
        let subs = self
            .subs
            .iter()
            .filter(|p| w.peers[**p].reg_sent.is_some() && w.peers[**p].sink.as_ref().unwrap().healthy())
            .count();
        format!(
            "pubs={},subs={},{}",
            if pubs == 0 { "0" } else { "1+" },
            if subs == 0 { "0" } else { "1+" },
            if self.closed { "closed" } else { "open" }
        )
    }

    fn record_state(&mut self, res: PollRes) {
        let w = lock(&self.sh);
        let mut h = crate::common::Hasher64::new();
        let pubs_alive = self
            .pubs
            .iter()
            .filter(|p| w.peers[**p].reg_sent.is_some() && w.peers[**p].stream.as_ref().unwrap().end_seen.is_none())
            .count();
        let subs_ok = self
            .subs
            .iter()
            .filter(|p| w.peers[**p].reg_sent.is_some() && w.peers[**p].sink.as_ref().unwrap().healthy())
            .count();
        let blocked = self
            .subs
            .iter()
            .filter(|p| w.peers[**p].sink.as_ref().unwrap().is_blocked())
            .count();
        let yielded: usize = self.pubs.iter().map(|p| w.peers[*p].stream.as_ref().unwrap().yielded.len()).sum();
        let min_started = self
            .subs
            .iter()
            .filter(|p| w.peers[**p].sink.as_ref().unwrap().first_touch.is_some())
            .map(|p| w.peers[*p].sink.as_ref().unwrap().started.len())
            .min()
            .unwrap_or(yielded);
        h.u(pubs_alive as u64);
        h.u(subs_ok as u64);
        h.u(blocked as u64);
        h.u((yielded > min_started) as u64);
        h.u(self.closed as u64);
        h.u(res as u64);
        self.states.push(h.0);
    }

    fn fire(&self, wk: Option<std::task::Waker>) {
        if let Some(w) = wk {
            w.wake();
        }
    }

    fn register(&mut self, peer: usize) {
        let kind = lock(&self.sh).peers[peer].kind;
        let sock = match kind {
            Kind::Publisher => Socket::Stream(Box::pin(MockStream { w: self.sh.clone(), peer })),
            Kind::Subscriber => Socket::Sink(Box::pin(MockSink { w: self.sh.clone(), peer })),
            _ => unreachable!(),
        };
        // like the server, every registration goes through its own clone of the topic's sender (a clone owns a
        // guaranteed slot, so more registrations than the channel's nominal capacity can queue up)
        let r = self.tx.clone().try_send(sock);
        let mut w = lock(&self.sh);
        let label = w.peers[peer].label.clone();
        match r {
            Ok(()) => {
                let t = w.act(format!("register {}", label));
                w.peers[peer].reg_sent = Some(t);
                self.registered.push(peer);
                self.stats.registrations += 1;
            }
            Err(e) => {
                w.act(format!("register {} refused by channel: {}", label, e));
            }
        }
    }

    fn produce(&mut self, peer: usize, class: &'static str) -> usize {
        let seq = {
            let e = self.next_seq.entry(peer).or_insert(0);
            let s = *e;
            *e += 1;
            s
        };
        let pl = payload(peer, seq, &mut self.rng);
        let frame = Frame::Message(MessagePayload { headers: None, message: pl.clone() });
        let mut w = lock(&self.sh);
        let uid = w.new_item(peer, seq, frame, class, None, None);
        self.pay_index.insert(pl.to_vec(), uid);
        let label = w.peers[peer].label.clone();
        w.act(format!("{} produces item uid={} seq={} ({})", label, uid, seq, class));
        let wk = w.enqueue(peer, QItem::Frame(uid));
        drop(w);
        self.fire(wk);
        uid
    }

    /// a frame of an arbitrary kind on a publisher stream (C11 family): the pub/sub router is
    /// payload-agnostic, so it must relay it like any other item
    fn produce_hostile(&mut self, peer: usize) {
        let seq = {
            let e = self.next_seq.entry(peer).or_insert(0);
            let s = *e;
            *e += 1;
            s
        };
        let pl = payload(peer, seq, &mut self.rng);
        let mut choice = self.rng.below(5);
        if choice == 0 && self.ok_used {
            choice = 1;
        }
        let frame = match choice {
            0 => {
                // carries no payload, so it can be identified only if it is unique in the run
                self.ok_used = true;
                Frame::Ok
            }
            1 => Frame::BatchMessage(pl.clone()),
            2 => Frame::Error(ErrorPayload { code: 7, message: pl.clone() }),
            3 => {
                let mut h = HashMap::new();
                h.insert("cid".to_string(), "0".to_string());
                Frame::Message(MessagePayload { headers: Some(h), message: pl.clone() })
            }
            _ => Frame::Message(MessagePayload { headers: None, message: pl.clone() }),
        };
        let mut w = lock(&self.sh);
        let uid = w.new_item(peer, seq, frame, "hostile", None, None);
        self.pay_index.insert(pl.to_vec(), uid);
        let label = w.peers[peer].label.clone();
        w.act(format!("{} produces hostile frame uid={} seq={}", label, uid, seq));
        let wk = w.enqueue(peer, QItem::Frame(uid));
        drop(w);
        self.fire(wk);
    }

    fn settle(&mut self, what: &str) -> bool {
        let wakers = {
            let mut w = lock(&self.sh);
            w.settle = true;
            w.act(format!("settle begin ({}): every healthy sink ready", what));
            w.all_wakers_for_settle()
        };
        for wk in wakers {
            wk.wake();
        }
        let bound = 400 + 40 * lock(&self.sh).items.len() as u64;
        let mut n = 0;
        while self.flag.is_woken() && self.alive {
            self.poll();
            n += 1;
            if n > bound {
                self.findings.push(Finding {
                    class: "livelock",
                    sig: "pubsub/livelock".into(),
                    detail: format!(
                        "router kept waking itself for {} consecutive polls with every sink ready and no new input",
                        n
                    ),
                });
                self.alive = false;
                return false;
            }
        }
        true
    }

    fn end_settle(&mut self) {
        let mut w = lock(&self.sh);
        w.settle = false;
        w.act("settle end".into());
    }

    /// checks at a quiescent point (no wake outstanding, every healthy sink ready)
    fn quiescent_checks(&mut self, at: &str, final_: bool) {
        let w = lock(&self.sh);
        let router_running = self.alive;
        // --- C09: sleeping on undone work -------------------------------------------------
        if router_running && !self.closed {
            for &p in &self.pubs {
                let peer = &w.peers[p];
                if peer.reg_sent.is_none() {
                    continue;
                }
                let st = peer.stream.as_ref().unwrap();
                if !st.queue.is_empty() {
                    let never = st.first_touch.is_none();
                    self.findings.push(Finding {
                        class: if never { "abandoned" } else if at.contains("error storm") { "starved-after-failure" } else { "sleep" },
                        sig: format!(
                            "pubsub/sleep/unread-input{}",
                            if never { "/registration-unnoticed" } else { "" }
                        ),
                        detail: format!(
                            "{}: router is parked with no wake-up outstanding while {} has {} item(s) ready{}",
                            at,
                            peer.label,
                            st.queue.len(),
                            if never { " (its registration was never noticed)" } else { "" }
                        ),
                    });
                }
            }
        }
        if self.closed && router_running {
            self.findings.push(Finding {
                class: "shutdown",
                sig: "pubsub/close-unnoticed".into(),
                detail: format!(
                    "{}: registration channel was closed, every sink is ready, no wake-up is outstanding, yet the router future has not completed",
                    at
                ),
            });
        }
        // --- C01/C08/C16: delivery oracle ---------------------------------------------------
        let dead = !self.alive && !self.completed;
        for &k in &self.subs {
            let peer = &w.peers[k];
            if peer.reg_sent.is_none() {
                continue;
            }
            let si = peer.sink.as_ref().unwrap();
            if !si.healthy() {
                continue;
            }
            let mut per_pub: HashMap<usize, Vec<u32>> = HashMap::new();
            for (t, frame) in &si.started {
                let pl: Option<&[u8]> = match frame {
                    Frame::Message(m) => Some(&m.message[..]),
                    Frame::BatchMessage(b) => Some(&b[..]),
                    Frame::Error(e) => Some(&e.message[..]),
                    _ => None,
                };
                let uid = match pl.and_then(|b| self.pay_index.get(b)) {
                    Some(u) => *u,
                    None => {
                        // Frame::Ok carries no payload: match by frame equality among yielded items
                        match w.items.iter().find(|it| it.frame == *frame && it.class == "hostile") {
                            Some(it) => it.uid,
                            None => {
                                self.findings.push(Finding {
                                    class: "delivery",
                                    sig: "pubsub/alien-frame".into(),
                                    detail: format!("{}: {} received at t={} a frame no publisher sent: {:?}", at, peer.label, t, frame),
                                });
                                continue;
                            }
                        }
                    }
                };
                let it = &w.items[uid];
                if it.frame != *frame {
                    self.findings.push(Finding {
                        class: "delivery",
                        sig: "pubsub/altered".into(),
                        detail: format!("{}: {} received item uid={} altered: sent {:?}, got {:?}", at, peer.label, uid, it.frame, frame),
                    });
                }
                per_pub.entry(it.producer).or_default().push(it.seq);
            }
            for &p in &self.pubs {
                let st = w.peers[p].stream.as_ref().unwrap();
                let d = per_pub.get(&p).cloned().unwrap_or_default();
                for i in 1..d.len() {
                    if d[i] == d[i - 1] + 1 {
                        continue;
                    }
                    let (cls, what) = if d[i] == d[i - 1] {
                        ("duplicate", "duplicated")
                    } else if d[i] < d[i - 1] {
                        ("reorder", "reordered")
                    } else {
                        ("gap", "skipped")
                    };
                    self.findings.push(Finding {
                        class: "delivery",
                        sig: format!("pubsub/{}", cls),
                        detail: format!(
                            "{}: {} saw items of {} {}: delivered sequence {:?}",
                            at, peer.label, w.peers[p].label, what, d
                        ),
                    });
                    break;
                }
                let yielded: Vec<(u64, u32)> = st.yielded.iter().map(|(t, uid)| (*t, w.items[*uid].seq)).collect();
                // items of p the router took after it first touched k must be delivered
                let must_from = si
                    .first_touch
                    .and_then(|ft| yielded.iter().find(|(t, _)| *t > ft).map(|(_, s)| *s));
                if let Some(last) = yielded.last().map(|(_, s)| *s) {
                    match (d.first(), d.last()) {
                        (Some(a), Some(b)) => {
                            if let Some(m) = must_from {
                                if *a > m {
                                    self.findings.push(Finding {
                                        class: "delivery",
                                        sig: "pubsub/undelivered/head".into(),
                                        detail: format!(
                                            "{}: {} (first served at t={:?}) first got seq {} of {} although seq {} was accepted after that",
                                            at, peer.label, si.first_touch, a, w.peers[p].label, m
                                        ),
                                    });
                                }
                            }
                            if *b < last {
                                self.findings.push(Finding {
                                    class: "delivery",
                                    sig: format!("pubsub/undelivered/tail{}", if dead { "/router-dead" } else { "" }),
                                    detail: format!(
                                        "{}: {} got items of {} only up to seq {} but the router accepted up to seq {}",
                                        at, peer.label, w.peers[p].label, b, last
                                    ),
                                });
                            }
                        }
                        _ => {
                            if let Some(m) = must_from {
                                self.findings.push(Finding {
                                    class: "delivery",
                                    sig: format!("pubsub/undelivered/all{}", if dead { "/router-dead" } else { "" }),
                                    detail: format!(
                                        "{}: {} (first served at t={:?}) got nothing of {} although seq {}..={} were accepted after that",
                                        at, peer.label, si.first_touch, w.peers[p].label, m, last
                                    ),
                                });
                            }
                        }
                    }
                }
            }
            if si.flushed != si.started.len() {
                self.findings.push(Finding {
                    class: "flush",
                    sig: format!("pubsub/unflushed{}", if dead { "/router-dead" } else if self.completed { "/at-completion" } else { "" }),
                    detail: format!(
                        "{}: {} was handed {} item(s) but only {} are covered by a successful flush, and nothing will wake the router",
                        at,
                        peer.label,
                        si.started.len(),
                        si.flushed
                    ),
                });
            }
        }
        let _ = final_;
    }

    fn probe(&mut self) {
        if !self.alive || self.closed {
            return;
        }
        // pick a live registered publisher, or register a fresh one
        let live = {
            let w = lock(&self.sh);
            self.pubs
                .iter()
                .copied()
                .find(|p| w.peers[*p].reg_sent.is_some() && !w.peers[*p].stream.as_ref().unwrap().ended)
        };
        let p = match live {
            Some(p) => p,
            None => {
                let p = lock(&self.sh).add_peer(Kind::Publisher, Some(StreamState::new(0)), None);
                self.pubs.push(p);
                self.register(p);
                p
            }
        };
        let uid = self.produce(p, "probe");
        if !self.settle("probe") {
            return;
        }
        let w = lock(&self.sh);
        let st = w.peers[p].stream.as_ref().unwrap();
        let yielded = st.yielded.iter().any(|(_, u)| *u == uid);
        if !self.alive && !self.completed {
            return;
        }
        if !yielded {
            let never = st.first_touch.is_none();
            self.findings.push(Finding {
                class: if never { "abandoned" } else { "sleep" },
                sig: format!("pubsub/sleep/probe-unread{}", if never { "/registration-unnoticed" } else { "" }),
                detail: format!(
                    "after quiescence {} published a probe item; the router never read it{}",
                    w.peers[p].label,
                    if never { " (publisher registration unnoticed: no wake-up was arranged with the registration channel)" } else { "" }
                ),
            });
            return;
        }
        let frame = w.items[uid].frame.clone();
        for &k in &self.subs {
            let peer = &w.peers[k];
            let si = peer.sink.as_ref().unwrap();
            if peer.reg_sent.is_none() || !si.healthy() {
                continue;
            }
            let got = si.started.iter().filter(|(_, f)| *f == frame).count();
            if got != 1 {
                let never = si.first_touch.is_none();
                self.findings.push(Finding {
                    class: "probe",
                    sig: format!("pubsub/probe-{}{}", if got == 0 { "undelivered" } else { "duplicated" }, if never { "/sink-never-served" } else { "" }),
                    detail: format!(
                        "after quiescence a probe item was accepted from {}; healthy registered subscriber {} received it {} time(s)",
                        w.peers[p].label, peer.label, got
                    ),
                });
            }
        }
    }

    fn close(&mut self) {
        self.tx.close_channel();
        self.closed = true;
        lock(&self.sh).act("close registration channel".into());
    }
}

pub fn run(seed: u64, family: &str, keep_dump: bool) -> RunResult {
    set_run_seed(seed);
    let mut rng = Rng::new(seed);
    let cfg = gen_cfg(&mut rng, family);
    let sh: Shared = Arc::new(Mutex::new(World::new(rng.next_u64())));
    let (topic, tx) = Topic::<Frame, SeliumError>::pair();
    let flag = WakeFlag::new();
    flag.set(); // a spawned task is polled once
    let mut sim = Sim {
        sh: sh.clone(),
        relay_after_close_reported: false,
        flag,
        fut: Box::pin(topic),
        tx,
        alive: true,
        completed: false,
        dead_reason: None,
        poll_no: 0,
        stats: RunStats::default(),
        findings: vec![],
        pubs: vec![],
        subs: vec![],
        next_seq: HashMap::new(),
        closed: false,
        rng: rng.fork(),
        pay_index: HashMap::new(),
        states: vec![],
        goals: vec![],
        registered: vec![],
        ok_used: false,
    };
    // peers
    {
        let mut w = lock(&sh);
        for _ in 0..cfg.n_pubs {
            let coop = if rng.pct(30) { 20 } else { 0 };
            let p = w.add_peer(Kind::Publisher, Some(StreamState::new(coop)), None);
            sim.pubs.push(p);
        }
        for j in 0..cfg.n_subs {
            let mut plan = sink_plan(cfg.sink_profiles[j]);
            if cfg.faults && rng.pct(60) {
                let op = *rng.pick(&[Op::Ready, Op::Start, Op::Flush, Op::Start, Op::Close]);
                plan.fault = Some(Fault { op, nth: rng.below(4) as u32 });
            }
            let s = w.add_peer(Kind::Subscriber, None, Some(SinkState::new(plan, false)));
            sim.subs.push(s);
        }
    }
    if let Some(n) = cfg.close_on_yield {
        let mut t = sim.tx.clone();
        lock(&sh).close_on_yield = Some((n, Box::new(move || t.close_channel())));
    }
    let mut remaining: HashMap<usize, u32> = sim.pubs.iter().copied().zip(cfg.items.iter().copied()).collect();
    if cfg.prefill > 0 {
        let mut all: Vec<usize> = sim.pubs.iter().chain(sim.subs.iter()).copied().collect();
        for _ in 0..cfg.prefill.min(all.len()) {
            let k = sim.rng.usize(all.len());
            let p = all.swap_remove(k);
            sim.register(p);
        }
    }

    #[derive(Clone, Copy, Debug)]
    enum A {
        Poll,
        Spurious,
        Reg(usize),
        Produce(usize),
        Hostile(usize),
        End(usize),
        Err(usize),
        Unblock(usize),
        Mini,
    }

    for step in 0..cfg.steps {
        if !sim.alive {
            break;
        }
        if cfg.close_at == Some(step) && !sim.closed {
            sim.close();
            continue;
        }
        if let Some((at, count)) = cfg.err_storm {
            if at == step && !sim.closed {
                let mut live: Vec<usize> = {
                    let w = lock(&sh);
                    sim.pubs.iter().copied().filter(|p| w.peers[*p].reg_sent.is_some() && !w.peers[*p].stream.as_ref().unwrap().ended).collect()
                };
                lock(&sh).act(format!("error storm: up to {} publisher streams fail back to back", count));
                let healthy = sim.rng.range(1, 8) as usize;
                let mut failed = 0;
                while failed < count && live.len() > healthy {
                    let k = sim.rng.usize(live.len());
                    let p = live.swap_remove(k);
                    let mut w = lock(&sh);
                    let label = w.peers[p].label.clone();
                    w.act(format!("{} stream fails (error, then end)", label));
                    let mut wks = vec![];
                    for _ in 0..(if sim.rng.pct(30) { sim.rng.range(2, 9) } else { 1 }) {
                        wks.push(w.enqueue(p, QItem::Err));
                    }
                    wks.push(w.end_stream(p));
                    drop(w);
                    for wk in wks {
                        sim.fire(wk);
                    }
                    failed += 1;
                }
                for _ in 0..healthy.min(live.len()) {
                    let k = sim.rng.usize(live.len());
                    let p = live.swap_remove(k);
                    sim.produce(p, "msg");
                }
                if sim.settle("after error storm") && sim.alive {
                    sim.quiescent_checks("quiescence after an error storm", false);
                }
                sim.end_settle();
                continue;
            }
        }
        if let Some((at, count)) = cfg.storm {
            if at == step && !sim.closed {
                let mut fresh: Vec<usize> = {
                    let w = lock(&sh);
                    sim.pubs.iter().chain(sim.subs.iter()).copied().filter(|p| w.peers[*p].reg_sent.is_none()).collect()
                };
                lock(&sh).act(format!("registration storm: up to {} peers register back to back", count));
                for _ in 0..count.min(fresh.len()) {
                    let k = sim.rng.usize(fresh.len());
                    let p = fresh.swap_remove(k);
                    sim.register(p);
                    if sim.pubs.contains(&p) && sim.rng.pct(40) {
                        sim.produce(p, "msg");
                    }
                }
                if sim.settle("after registration storm") && sim.alive {
                    sim.quiescent_checks("quiescence after a registration storm", false);
                }
                sim.end_settle();
                continue;
            }
        }
        let mut acts: Vec<(A, u32)> = vec![];
        if sim.flag.is_woken() {
            acts.push((A::Poll, 12));
        } else if cfg.spurious {
            acts.push((A::Spurious, 1));
        }
        {
            let w = lock(&sh);
            for &p in &sim.pubs {
                let peer = &w.peers[p];
                let st = peer.stream.as_ref().unwrap();
                if peer.reg_sent.is_none() {
                    if !sim.closed {
                        acts.push((A::Reg(p), 3));
                    }
                }
                if !st.ended {
                    let rem = *remaining.get(&p).unwrap_or(&0);
                    if rem > 0 {
                        acts.push((if cfg.hostile_frames && sim.rng.pct(50) { A::Hostile(p) } else { A::Produce(p) }, if peer.reg_sent.is_some() { 4 } else { 1 }));
                    }
                    if peer.reg_sent.is_some() {
                        acts.push((A::End(p), if rem == 0 { 2 } else { 1 }));
                        if cfg.pub_err {
                            acts.push((A::Err(p), 1));
                        }
                    }
                }
            }
            for &s in &sim.subs {
                let peer = &w.peers[s];
                if peer.reg_sent.is_none() {
                    if !sim.closed {
                        acts.push((A::Reg(s), 3));
                    }
                } else if peer.sink.as_ref().unwrap().is_blocked() {
                    acts.push((A::Unblock(s), 4));
                }
            }
        }
        if cfg.mini_settle && !sim.closed {
            acts.push((A::Mini, 1));
        }
        if acts.is_empty() {
            break;
        }
        let total: u32 = acts.iter().map(|a| a.1).sum();
        let mut r = sim.rng.below(total as u64) as u32;
        let mut chosen = acts[0].0;
        for (a, wgt) in &acts {
            if r < *wgt {
                chosen = *a;
                break;
            }
            r -= wgt;
        }
        sim.stats.actions += 1;
        match chosen {
            A::Poll => sim.poll(),
            A::Spurious => {
                lock(&sh).act("spurious poll".into());
                sim.poll()
            }
            A::Reg(p) => sim.register(p),
            A::Produce(p) => {
                // firehose: hundreds of items become available between two polls
                let k = if family == "firehose" { (sim.rng.range(300, 1500) as u32).min(remaining[&p]) } else { 1 };
                for _ in 0..k {
                    *remaining.get_mut(&p).unwrap() -= 1;
                    sim.produce(p, "msg");
                }
            }
            A::Hostile(p) => {
                *remaining.get_mut(&p).unwrap() -= 1;
                sim.produce_hostile(p);
            }
            A::End(p) => {
                let mut w = lock(&sh);
                let label = w.peers[p].label.clone();
                w.act(format!("{} ends its stream", label));
                let wk = w.end_stream(p);
                drop(w);
                sim.fire(wk);
            }
            A::Err(p) => {
                let mut w = lock(&sh);
                let label = w.peers[p].label.clone();
                w.act(format!("{} stream fails (error, then end)", label));
                let wk1 = w.enqueue(p, QItem::Err);
                let wk2 = w.end_stream(p);
                drop(w);
                sim.fire(wk1);
                sim.fire(wk2);
            }
            A::Unblock(s) => {
                let mut w = lock(&sh);
                let label = w.peers[s].label.clone();
                w.act(format!("{} becomes writable", label));
                let wk = w.unblock(s);
                drop(w);
                sim.fire(wk);
            }
            A::Mini => {
                if sim.settle("mid-run") && sim.alive {
                    sim.quiescent_checks("mid-run quiescence", false);
                }
                sim.end_settle();
            }
        }
    }

    // final settle
    if sim.alive {
        if sim.settle("final") {
            sim.quiescent_checks("final quiescence", true);
        }
    } else {
        sim.quiescent_checks(if sim.completed { "after completion" } else { "after router death" }, true);
    }
    if sim.alive && !sim.closed {
        sim.probe();
        if sim.alive {
            sim.quiescent_checks("after probe", true);
        }
    }
    if sim.alive && !sim.closed && cfg.close_at_end {
        sim.close();
        if sim.settle("after close") {
            sim.quiescent_checks("after close", true);
        }
    } else if sim.completed {
        // completed earlier (closed mid-run): checks already ran at final quiescence
    }

    // stats + hashes
    let w = lock(&sh);
    let mut stats = sim.stats.clone();
    stats.mock_calls = w.mock_calls;
    for p in &w.peers {
        if let Some(si) = &p.sink {
            stats.deliveries += si.started.len() as u64;
            stats.pendings += si.pendings as u64;
            if si.failed.is_some() {
                stats.faults_fired += 1;
            }
        }
        if let Some(st) = &p.stream {
            stats.items_yielded += st.yielded.len() as u64;
            stats.pendings += st.pendings as u64;
            stats.faults_fired += st.errs_yielded as u64;
        }
    }
    let (trace_hash, poll_sigs) = hash_log(&w);
    let nontrivial = stats.deliveries >= 1 && (stats.pendings >= 1 || stats.faults_fired >= 1);
    // goals
    let mut goals = sim.goals.clone();
    if sim.closed && sim.completed {
        goals.push("router-completed-after-close");
    }
    if w.peers.iter().any(|p| p.sink.as_ref().map_or(false, |s| s.failed.map_or(false, |(op, _)| op == Op::Start))) {
        goals.push("sink-failed-in-start_send");
    }
    if w.peers.iter().any(|p| p.sink.as_ref().map_or(false, |s| s.failed.map_or(false, |(op, _)| op == Op::Flush))) {
        goals.push("sink-failed-in-poll_flush");
    }
    if w.peers.iter().any(|p| p.sink.as_ref().map_or(false, |s| s.failed.map_or(false, |(op, _)| op == Op::Ready))) {
        goals.push("sink-failed-in-poll_ready");
    }
    {
        // last publisher ended while a flush was pending
        let mut last_flush_pending = false;
        let mut hit = false;
        for e in &w.log {
            if let EvKind::Call { op, out, .. } = &e.kind {
                if *op == Op::Flush {
                    last_flush_pending = matches!(out, Out::Pending | Out::Coop);
                }
                if *op == Op::Next && *out == Out::End && last_flush_pending {
                    hit = true;
                }
            }
        }
        if hit {
            goals.push("publisher-ended-while-flush-pending");
        }
    }
    let config = json!({
        "engine": "routersim/pubsub", "family": family, "seed": seed,
        "n_pubs": cfg.n_pubs, "n_subs": cfg.n_subs, "items": cfg.items, "steps": cfg.steps,
        "spurious_polls": cfg.spurious, "close_at": cfg.close_at, "close_at_end": cfg.close_at_end,
        "faults": cfg.faults, "sink_profiles": cfg.sink_profiles, "registrations_queued_before_first_poll": cfg.prefill, "registration_storm_step_count": cfg.storm, "error_storm_step_count": cfg.err_storm, "close_when_item_n_is_yielded": cfg.close_on_yield,
    });
    let dump = if keep_dump || !sim.findings.is_empty() {
        Some(dump_world(&w, 400))
    } else {
        None
    };
    RunResult {
        seed,
        family: family.to_string(),
        findings: sim.findings.clone(),
        stats,
        trace_hash,
        nontrivial,
        poll_sigs,
        states: sim.states.clone(),
        goals,
        config,
        dump,
    }
}

//! L1: component simulation of the real topic routers with mock peers on a manual,
//! wake-driven executor (see DESIGN.md §2/L1).

pub mod exec;
pub mod pubsub;
pub mod reqrep;
pub mod world;

use serde_json::{json, Value};
use world::{EvKind, Kind, World};

#[derive(Clone, Debug)]
pub struct Finding {
    /// oracle class: "delivery", "flush", "probe", "panic", "spin", "livelock", "sleep",
    /// "shutdown", "routing", "binding", ...
    pub class: &'static str,
    /// stable signature tail (engine/class/detail), the property id is prefixed by the caller
    pub sig: String,
    pub detail: String,
}

#[derive(Default, Clone, Debug)]
pub struct RunStats {
    pub polls: u64,
    pub actions: u64,
    pub mock_calls: u64,
    pub deliveries: u64,
    pub pendings: u64,
    pub faults_fired: u64,
    pub items_yielded: u64,
    pub registrations: u64,
    pub panics: u64,
    pub spins: u64,
}

pub struct RunResult {
    pub seed: u64,
    pub family: String,
    pub findings: Vec<Finding>,
    pub stats: RunStats,
    pub trace_hash: u64,
    pub nontrivial: bool,
    pub poll_sigs: Vec<u64>,
    pub states: Vec<u64>,
    pub goals: Vec<&'static str>,
    pub config: Value,
    pub dump: Option<Value>,
}

/// Render the boundary log in a compact, human-readable form.
pub fn dump_world(w: &World, max_events: usize) -> Value {
    let mut evs: Vec<Value> = vec![];
    let mut last_body = String::new();
    let mut repeats = 0u64;
    let skip = 0usize;
    for e in w.log.iter() {
        let s = match &e.kind {
            EvKind::Act(a) => format!("{:>4} ACT  {}", e.t, a),
            EvKind::PollBegin(n) => format!("{:>4} POLL #{} {{", e.t, n),
            EvKind::PollEnd(r) => format!("{:>4} }} -> {:?}", e.t, r),
            EvKind::Call { peer, op, out, ix } => {
                let label = &w.peers[*peer].label;
                match ix {
                    Some(ix) => format!("{:>4}   {}.{} -> {} [{}]", e.t, label, op.name(), out.name(), ix),
                    None => format!("{:>4}   {}.{} -> {}", e.t, label, op.name(), out.name()),
                }
            }
        };
        // collapse runs of identical calls (a spinning poll produces thousands of them)
        let body = s.trim_start().splitn(2, ' ').nth(1).unwrap_or("").to_string();
        if body == last_body && matches!(e.kind, EvKind::Call { .. }) {
            repeats += 1;
            continue;
        }
        if repeats > 0 {
            evs.push(Value::String(format!("       … previous line repeated {} more time(s)", repeats)));
            repeats = 0;
        }
        last_body = body;
        evs.push(Value::String(s));
    }
    if repeats > 0 {
        evs.push(Value::String(format!("       … previous line repeated {} more time(s)", repeats)));
    }
    if evs.len() > max_events {
        let cut = evs.len() - max_events;
        evs.drain(0..cut);
        evs.insert(0, Value::String(format!("… {} earlier lines omitted", cut)));
    }
    let peers: Vec<Value> = w
        .peers
        .iter()
        .map(|p| {
            let mut o = serde_json::Map::new();
            o.insert("label".into(), json!(p.label));
            o.insert("reg_sent".into(), json!(p.reg_sent));
            if let Some(st) = &p.stream {
                o.insert(
                    "stream".into(),
                    json!({"yielded": st.yielded.len(), "queued": st.queue.len(), "ended": st.ended,
                           "end_seen": st.end_seen, "first_touch": st.first_touch}),
                );
            }
            if let Some(si) = &p.sink {
                o.insert(
                    "sink".into(),
                    json!({"started": si.started.len(), "flushed": si.flushed, "closed": si.closed,
                           "failed": si.failed.map(|(op, t)| format!("{}@{}", op.name(), t)),
                           "first_touch": si.first_touch,
                           "fault_plan": si.plan.fault.map(|f| format!("{}#{}", f.op.name(), f.nth))}),
                );
            }
            Value::Object(o)
        })
        .collect();
    json!({"events_skipped": skip, "events": evs, "peers": peers})
}

pub fn kind_code(k: Kind) -> u64 {
    match k {
        Kind::Publisher => 1,
        Kind::Subscriber => 2,
        Kind::Requestor => 3,
        Kind::Replier => 4,
    }
}

/// Hash the whole boundary log (used for distinctness accounting) and collect per-poll
/// signatures (distinct paths through `poll()`).
pub fn hash_log(w: &World) -> (u64, Vec<u64>) {
    use crate::common::Hasher64;
    let mut all = Hasher64::new();
    let mut sigs = vec![];
    let mut cur: Option<Hasher64> = None;
    for e in &w.log {
        match &e.kind {
            EvKind::Act(a) => all.s(a),
            EvKind::PollBegin(_) => {
                all.u(0xB0);
                cur = Some(Hasher64::new());
            }
            EvKind::PollEnd(r) => {
                all.u(0xE0 + *r as u64);
                if let Some(mut h) = cur.take() {
                    h.u(*r as u64);
                    sigs.push(h.0);
                }
            }
            EvKind::Call { peer, op, out, .. } => {
                let code = (kind_code(w.peers[*peer].kind) << 24)
                    | ((*peer as u64) << 16)
                    | ((*op as u64) << 8)
                    | (*out as u64);
                all.u(code);
                if let Some(h) = cur.as_mut() {
                    h.u(code);
                }
            }
        }
    }
    (all.0, sigs)
}

//! L1 simulation of the real `selium_server::topic::reqrep::Topic` (with its `Router`).
//!
//! Families:
//!  * `c02` – one replier that stays, 1–4 requestors (forged `cid`s, colliding `req_id`s), replies in
//!            arbitrary order incl. malformed routing tags, requestor sinks blocked at chosen moments
//!  * `c08` – sink/stream faults on requestors and on the replier, then a new replier
//!  * `c09` – every role combination (none / requestors only / replier only / both / rejected replier),
//!            strictly wake-driven, mini-settles
//!  * `c10` – 2–5 repliers arriving and leaving around requests and replies
//!  * `c11` – frames of all kinds mid-stream, requests at the frame limit (encoder-backed replier sink)
//!  * `c16` – registration channel closed at a random step

use super::exec::{guarded_poll, normalise_location, set_run_seed, take_last_panic, WakeFlag};
use super::world::*;
use super::{dump_world, hash_log, Finding, RunResult, RunStats};
use crate::common::Rng;
use bytes::Bytes;
use futures::channel::mpsc::Sender;
use selium_protocol::error_codes::REPLIER_ALREADY_BOUND;
use selium_protocol::{ErrorPayload, Frame, MessagePayload, ReplierPayload, TopicName};
use selium_server::topic::reqrep::{Socket, Topic};
use selium_std::errors::SeliumError;
use serde_json::json;
use std::collections::{HashMap, HashSet};
use std::future::Future;
use std::pin::Pin;
use std::sync::{Arc, Mutex};

type Tx = Sender<Socket<SeliumError>>;

const MAX_FRAME: usize = 1024 * 1024;

#[derive(Clone, Debug)]
struct Cfg {
    n_reqs: usize,
    n_reps: usize,
    requests: Vec<u32>,
    steps: usize,
    spurious: bool,
    close_at: Option<usize>,
    close_at_end: bool,
    mini_settle: bool,
    faults: bool,
    hostile: bool,
    malformed_replies: bool,
    repliers_leave: bool,
    profiles: Vec<u8>,
    prefill: usize,
    /// (step, count): see pubsub.rs
    storm: Option<(usize, usize)>,
    /// (step, count): `count` requestor streams fail between two polls (a client with many streams loses its
    /// connection) while a few healthy requestors have a request ready; the router is then left alone
    err_storm: Option<(usize, usize)>,
}

fn plan(profile: u8) -> SinkPlan {
    match profile {
        0 => SinkPlan::always_ready(),
        1 => SinkPlan { p_block: [40, 0, 0], p_coop: [0, 0, 0], fault: None },
        2 => SinkPlan { p_block: [0, 40, 20], p_coop: [0, 0, 0], fault: None },
        3 => SinkPlan { p_block: [0, 0, 0], p_coop: [30, 30, 30], fault: None },
        4 => SinkPlan { p_block: [50, 50, 50], p_coop: [10, 10, 10], fault: None },
        _ => SinkPlan { p_block: [15, 15, 15], p_coop: [10, 10, 10], fault: None },
    }
}

fn gen_cfg(rng: &mut Rng, family: &str) -> Cfg {
    let (n_reqs, n_reps) = match family {
        "burst" => (rng.range(1, 135) as usize, rng.below(3) as usize),
        "firehose" => (rng.range(1, 2) as usize, 1),
        "c02" => (rng.range(1, 4) as usize, 1),
        "c08" => (rng.range(1, 3) as usize, rng.range(1, 3) as usize),
        "c09" => (rng.below(4) as usize, rng.below(3) as usize),
        "c10" => (rng.range(1, 3) as usize, rng.range(2, 5) as usize),
        "c11" => (rng.range(1, 3) as usize, rng.range(1, 2) as usize),
        _ => (rng.below(3) as usize, rng.below(3) as usize),
    };
    let steps = if family == "burst" { rng.range(40, 300) as usize } else if matches!(family, "c08" | "c10") && rng.pct(15) { rng.range(90, 260) as usize } else { rng.range(10, 90) as usize };
    let profiles = (0..n_reqs + n_reps)
        .map(|_| if rng.pct(35) { 0 } else { rng.range(1, 5) as u8 })
        .collect();
    Cfg {
        n_reqs,
        n_reps,
        // (fault and re-bind families: now and then a requestor with dozens of requests in flight, so that many replies
        // are still under way when it fails or when the replier changes)
        requests: (0..n_reqs).map(|_| if family == "burst" { (rng.below(5) == 0) as u32 } else if family == "firehose" { rng.range(900, 2600) as u32 } else if matches!(family, "c08" | "c10") && rng.pct(8) { rng.range(18, 48) as u32 } else { rng.below(6) as u32 }).collect(),
        steps,
        spurious: matches!(family, "c02" | "c08" | "c11" | "c10") && rng.pct(25),
        close_at: match family {
            "c16" => Some(rng.usize(steps)),
            "burst" if rng.pct(50) => Some(rng.usize(steps)),
            "c09" if rng.pct(25) => Some(rng.usize(steps)),
            _ => None,
        },
        close_at_end: rng.pct(40),
        mini_settle: family == "c09" || rng.pct(20),
        faults: family == "c08",
        hostile: family == "c11",
        malformed_replies: matches!(family, "c02" | "c11" | "c08") && rng.pct(70),
        repliers_leave: matches!(family, "c10" | "c08" | "c09" | "c16"),
        profiles,
        prefill: if family == "burst" && rng.pct(60) { rng.usize(n_reqs + n_reps + 1) } else { 0 },
        err_storm: if family == "burst" && rng.pct(40) { Some((rng.usize(steps), rng.range(1, 40) as usize)) } else { None },
        storm: if family == "burst" && rng.pct(70) {
            let total = n_reqs + n_reps;
            let count = if rng.pct(50) { rng.range(1, total as u64) as usize } else { total - rng.usize(total.min(6)) };
            Some((if rng.pct(40) { 0 } else { rng.usize(steps) }, count))
        } else {
            None
        },
    }
}

#[derive(Clone, Debug, Default)]
struct RepMeta {
    /// logical time at which the harness made this replier leave (stream end / failure)
    left_at: Option<u64>,
    answered: HashSet<usize>,
}

struct Sim {
    sh: Shared,
    flag: Arc<WakeFlag>,
    fut: Pin<Box<dyn Future<Output = ()>>>,
    tx: Tx,
    alive: bool,
    completed: bool,
    poll_no: u64,
    stats: RunStats,
    findings: Vec<Finding>,
    reqs: Vec<usize>,
    reps: Vec<usize>,
    rep_meta: HashMap<usize, RepMeta>,
    next_seq: HashMap<usize, u32>,
    emissions: u32,
    closed: bool,
    rng: Rng,
    /// payload bytes -> item uid (requests and replies)
    pay_index: HashMap<Vec<u8>, usize>,
    states: Vec<u64>,
    hostile: bool,
    /// logical times at which a settle phase reached quiescence with the router still running
    quiescent_times: Vec<u64>,
}

fn headers_of(f: &Frame) -> Option<&HashMap<String, String>> {
    match f {
        Frame::Message(m) => m.headers.as_ref(),
        _ => None,
    }
}

impl Sim {
    fn budget(&self) -> i64 {
        let w = lock(&self.sh);
        let avail: usize = w
            .peers
            .iter()
            .filter_map(|p| p.stream.as_ref())
            .map(|s| s.queue.len() + 1)
            .sum();
        let peers = w.peers.len();
        (4 * (avail + peers + 8) * (3 * peers + 10)) as i64
    }

    fn role_state(&self) -> String {
        let w = lock(&self.sh);
        let reqs = self
            .reqs
            .iter()
            .filter(|p| w.peers[**p].reg_sent.is_some() && w.peers[**p].stream.as_ref().unwrap().end_seen.is_none())
            .count();
        let reps_live = self
            .reps
            .iter()
            .filter(|p| {
                let pe = &w.peers[**p];
                pe.reg_sent.is_some() && pe.stream.as_ref().unwrap().end_seen.is_none() && pe.sink.as_ref().unwrap().healthy()
            })
            .count();
        format!(
            "requestor-streams={},repliers={},{}",
            if reqs == 0 { "0" } else { "1+" },
            match reps_live {
                0 => "0",
                1 => "1",
                _ => "2+",
            },
            if self.closed { "closed" } else { "open" }
        )
    }

    fn poll(&mut self) {
        if !self.alive {
            self.flag.woken.store(false, std::sync::atomic::Ordering::SeqCst);
            return;
        }
        self.poll_no += 1;
        self.stats.polls += 1;
        let budget = self.budget();
        let res = guarded_poll(self.fut.as_mut(), &self.sh, &self.flag, budget, self.poll_no);
        match res {
            PollRes::Pending => {}
            PollRes::Ready => {
                self.alive = false;
                self.completed = true;
                if !self.closed {
                    self.findings.push(Finding {
                        class: "shutdown",
                        sig: "reqrep/completed-without-close".into(),
                        detail: "router future completed although its registration channel is open".into(),
                    });
                }
            }
            PollRes::Panic => {
                self.alive = false;
                self.stats.panics += 1;
                let (loc, msg) = take_last_panic().unwrap_or(("<unknown>".into(), "".into()));
                self.findings.push(Finding {
                    class: "panic",
                    sig: format!("reqrep/panic/{}", normalise_location(&loc)),
                    detail: format!("router poll #{} panicked at {}: {}", self.poll_no, loc, msg),
                });
            }
            PollRes::Spin => {
                self.alive = false;
                self.stats.spins += 1;
                let st = self.role_state();
                self.findings.push(Finding {
                    class: "spin",
                    sig: format!("reqrep/spin/{}", st),
                    detail: format!(
                        "router poll #{} made more than {} mock calls without returning (state: {})",
                        self.poll_no, budget, st
                    ),
                });
            }
        }
        let mut h = crate::common::Hasher64::new();
        h.s(&self.role_state());
        h.u(res as u64);
        {
            let w = lock(&self.sh);
            let blocked = w.peers.iter().filter(|p| p.sink.as_ref().map_or(false, |s| s.is_blocked())).count();
            h.u(blocked.min(2) as u64);
            let queued: usize = w.peers.iter().filter_map(|p| p.stream.as_ref()).map(|s| s.queue.len()).sum();
            h.u(queued.min(2) as u64);
        }
        self.states.push(h.0);
    }

    fn fire(&self, wk: Option<std::task::Waker>) {
        if let Some(w) = wk {
            w.wake();
        }
    }

    fn register(&mut self, peer: usize) {
        let kind = lock(&self.sh).peers[peer].kind;
        let si: Pin<Box<dyn futures::Sink<Frame, Error = SeliumError> + Send>> =
            Box::pin(MockSink { w: self.sh.clone(), peer });
        let st: futures::stream::BoxStream<'static, Result<Frame, SeliumError>> =
            Box::pin(MockStream { w: self.sh.clone(), peer });
        let sock = match kind {
            Kind::Requestor => Socket::Client((si, st)),
            Kind::Replier => Socket::Server((si, st)),
            _ => unreachable!(),
        };
        // like the server, every registration goes through its own clone of the topic's sender (a clone owns a
        // guaranteed slot, so more registrations than the channel's nominal capacity can queue up)
        let r = self.tx.clone().try_send(sock);
        let mut w = lock(&self.sh);
        let label = w.peers[peer].label.clone();
        match r {
            Ok(()) => {
                let t = w.act(format!("register {}", label));
                w.peers[peer].reg_sent = Some(t);
                self.stats.registrations += 1;
            }
            Err(e) => {
                w.act(format!("register {} refused by channel: {}", label, e));
            }
        }
    }

    fn new_peer(&mut self, kind: Kind, profile: u8, fault: Option<Fault>, encoder_backed: bool) -> usize {
        let mut pl = plan(profile);
        pl.fault = fault;
        let coop = if self.rng.pct(25) { 20 } else { 0 };
        let id = lock(&self.sh).add_peer(kind, Some(StreamState::new(coop)), Some(SinkState::new(pl, encoder_backed)));
        match kind {
            Kind::Requestor => self.reqs.push(id),
            Kind::Replier => {
                self.reps.push(id);
                self.rep_meta.insert(id, RepMeta::default());
            }
            _ => unreachable!(),
        }
        id
    }

    fn request(&mut self, peer: usize, class: &'static str, big: bool) -> usize {
        let seq = {
            let e = self.next_seq.entry(peer).or_insert(0);
            let s = *e;
            *e += 1;
            s
        };
        let mut headers = HashMap::new();
        headers.insert("req_id".to_string(), seq.to_string());
        let mut forged = None;
        if class == "request" {
            match self.rng.below(8) {
                0 => {
                    // forge a routing tag: somebody else's likely id, or garbage
                    let v = match self.rng.below(4) {
                        0 => "0".to_string(),
                        1 => "1".to_string(),
                        2 => "999".to_string(),
                        _ => "not-a-number".to_string(),
                    };
                    headers.insert("cid".to_string(), v.clone());
                    forged = Some(v);
                }
                1 => {
                    headers.insert("x-trace".to_string(), format!("t{}", seq));
                }
                2 => {
                    // application headers whose *names* resemble the routing tag: they are the application's, must
                    // travel untouched in both directions and must not influence routing
                    let name = *self.rng.pick(&["CID", "Cid", "cId", "cid ", " cid", "cid\0", "c\u{131}d", "ci", "cidd", "x-cid", "req_id ", "REQ_ID"]);
                    let v = match self.rng.below(4) {
                        0 => "0".to_string(),
                        1 => "1".to_string(),
                        2 => "order-4711".to_string(),
                        _ => String::new(),
                    };
                    headers.insert(name.to_string(), v);
                    if self.rng.pct(30) {
                        headers.insert("".to_string(), "empty-name".to_string());
                    }
                }
                _ => {}
            }
        }
        let mut v = format!("Q1|p={}|s={}|", peer, seq).into_bytes();
        let extra = if big {
            // encoded Message size = 1 (Some) + 8 (map len) + sum(8+k+8+v) + 8 (bytes len) + payload
            let hdr: usize = 1 + 8 + headers.iter().map(|(k, val)| 16 + k.len() + val.len()).sum::<usize>() + 8;
            let target = MAX_FRAME - self.rng.below(40) as usize; // encoded size target: limit-39 ..= limit
            target.saturating_sub(hdr + v.len())
        } else {
            match self.rng.below(5) {
                0 => 0,
                1 => 300,
                _ => self.rng.below(24) as usize,
            }
        };
        if big {
            v.resize(v.len() + extra, 0x5a);
        } else {
            v.extend(self.rng.bytes(extra));
        }
        let pl = Bytes::from(v);
        let frame = Frame::Message(MessagePayload { headers: Some(headers), message: pl.clone() });
        let mut w = lock(&self.sh);
        let uid = w.new_item(peer, seq, frame, class, None, forged.clone());
        self.pay_index.insert(if big { pl[..40.min(pl.len())].to_vec() } else { pl.to_vec() }, uid);
        let label = w.peers[peer].label.clone();
        w.act(format!(
            "{} sends {} uid={} seq={}{}{}",
            label,
            class,
            uid,
            seq,
            forged.map(|f| format!(" forged cid={:?}", f)).unwrap_or_default(),
            if big { format!(" payload={}B (near frame limit)", pl.len()) } else { String::new() }
        ));
        let wk = w.enqueue(peer, QItem::Frame(uid));
        drop(w);
        self.fire(wk);
        uid
    }

    fn hostile_frame(&mut self, peer: usize) {
        let seq = {
            let e = self.next_seq.entry(peer).or_insert(0);
            let s = *e;
            *e += 1;
            s
        };
        let tag = Bytes::from(format!("H1|p={}|s={}|", peer, seq).into_bytes());
        let topic = TopicName::_create_unchecked("hostile", "topic");
        let frame = match self.rng.below(6) {
            0 => Frame::Ok,
            1 => Frame::BatchMessage(tag.clone()),
            2 => Frame::Error(ErrorPayload { code: 3, message: tag.clone() }),
            3 => Frame::RegisterReplier(ReplierPayload { topic }),
            4 => Frame::Message(MessagePayload { headers: None, message: tag.clone() }),
            _ => {
                let mut h = HashMap::new();
                h.insert("cid".to_string(), "18446744073709551616".to_string());
                Frame::Message(MessagePayload { headers: Some(h), message: tag.clone() })
            }
        };
        let mut w = lock(&self.sh);
        let label = w.peers[peer].label.clone();
        let uid = w.new_item(peer, seq, frame.clone(), "hostile", None, None);
        self.pay_index.insert(tag.to_vec(), uid);
        w.act(format!("{} sends hostile frame uid={}: {:?}", label, uid, frame));
        let wk = w.enqueue(peer, QItem::Frame(uid));
        drop(w);
        self.fire(wk);
    }

    /// the scripted replier answers one of the requests it has received (flushed to it)
    fn reply(&mut self, rep: usize, malformed: bool, only_uid: Option<usize>) -> Option<usize> {
        let (req_uid, req_frame) = {
            let w = lock(&self.sh);
            let si = w.peers[rep].sink.as_ref().unwrap();
            let meta = &self.rep_meta[&rep];
            let mut cands: Vec<(usize, Frame)> = vec![];
            for (_, f) in si.started.iter().take(si.flushed) {
                if let Frame::Message(m) = f {
                    let key = if m.message.len() > 4096 { m.message[..40].to_vec() } else { m.message.to_vec() };
                    if let Some(uid) = self.pay_index.get(&key) {
                        if w.items[*uid].class == "request" || w.items[*uid].class == "probe-request" {
                            if let Some(o) = only_uid {
                                if o != *uid {
                                    continue;
                                }
                            }
                            cands.push((*uid, f.clone()));
                        }
                    }
                }
            }
            if cands.is_empty() {
                return None;
            }
            let un: Vec<&(usize, Frame)> = cands.iter().filter(|(u, _)| !meta.answered.contains(u)).collect();
            let pick = if !un.is_empty() && (only_uid.is_some() || self.rng.pct(90)) {
                (*un[self.rng.usize(un.len())]).clone()
            } else {
                cands[self.rng.usize(cands.len())].clone()
            };
            pick
        };
        self.emissions += 1;
        let e = self.emissions;
        let mut headers = headers_of(&req_frame).cloned().unwrap_or_default();
        let mut cid = headers.get("cid").cloned();
        let mut class = "reply";
        let mut hdr_opt = Some(headers.clone());
        if malformed {
            class = "malformed-reply";
            match self.rng.below(8) {
                6 | 7 => {
                    // long tags, with multi-byte characters at every small offset around 16/32/64/128 bytes
                    let pad = *self.rng.pick(&[15usize, 16, 31, 32, 62, 63, 64, 65, 127, 128, 300]);
                    let ch = *self.rng.pick(&["é", "中", "💥", "x"]);
                    let tag = format!("{}{}{}", "t".repeat(pad), ch.repeat(3), "z".repeat(self.rng.below(80) as usize));
                    headers.insert("cid".into(), tag);
                    hdr_opt = Some(headers.clone());
                    cid = None;
                }
                0 => {
                    hdr_opt = None;
                    cid = None;
                }
                1 => {
                    headers.remove("cid");
                    hdr_opt = Some(headers.clone());
                    cid = None;
                }
                2 => {
                    headers.insert("cid".into(), "abc".into());
                    hdr_opt = Some(headers.clone());
                    cid = None;
                }
                3 => {
                    headers.insert("cid".into(), "999999".into());
                    hdr_opt = Some(headers.clone());
                    cid = None;
                }
                4 => {
                    headers.insert("cid".into(), "".into());
                    hdr_opt = Some(headers.clone());
                    cid = None;
                }
                _ => {
                    headers.insert("cid".into(), "-1".into());
                    hdr_opt = Some(headers.clone());
                    cid = None;
                }
            }
        }
        let pl = Bytes::from(format!("R1|rep={}|e={}|answers={}|", rep, e, req_uid).into_bytes());
        let frame = Frame::Message(MessagePayload { headers: hdr_opt, message: pl.clone() });
        let mut w = lock(&self.sh);
        let uid = w.new_item(rep, e, frame, class, Some(req_uid), cid.clone());
        self.pay_index.insert(pl.to_vec(), uid);
        let label = w.peers[rep].label.clone();
        w.act(format!("{} emits {} uid={} answering request uid={} with cid={:?}", label, class, uid, req_uid, cid));
        let wk = w.enqueue(rep, QItem::Frame(uid));
        drop(w);
        self.rep_meta.get_mut(&rep).unwrap().answered.insert(req_uid);
        self.fire(wk);
        Some(uid)
    }

    fn leave(&mut self, peer: usize, with_error: bool) {
        let mut w = lock(&self.sh);
        let label = w.peers[peer].label.clone();
        let t = w.act(format!("{} {}", label, if with_error { "stream fails (error, then end)" } else { "ends its stream" }));
        let wk1 = if with_error { w.enqueue(peer, QItem::Err) } else { None };
        let wk2 = w.end_stream(peer);
        drop(w);
        if let Some(m) = self.rep_meta.get_mut(&peer) {
            m.left_at.get_or_insert(t);
        }
        self.fire(wk1);
        self.fire(wk2);
    }

    fn settle(&mut self, what: &str) -> bool {
        let wakers = {
            let mut w = lock(&self.sh);
            w.settle = true;
            w.act(format!("settle begin ({}): every healthy sink ready", what));
            w.all_wakers_for_settle()
        };
        for wk in wakers {
            wk.wake();
        }
        let bound = 400 + 40 * lock(&self.sh).items.len() as u64;
        let mut n = 0;
        while self.flag.is_woken() && self.alive {
            self.poll();
            n += 1;
            if n > bound {
                self.findings.push(Finding {
                    class: "livelock",
                    sig: "reqrep/livelock".into(),
                    detail: format!("router kept waking itself for {} consecutive polls with every sink ready and no new input", n),
                });
                self.alive = false;
                return false;
            }
        }
        if self.alive {
            let t = lock(&self.sh).t;
            self.quiescent_times.push(t);
        }
        true
    }

    fn end_settle(&mut self) {
        let mut w = lock(&self.sh);
        w.settle = false;
        w.act("settle end".into());
    }

    fn is_rejected(w: &World, rep: usize) -> bool {
        w.peers[rep]
            .sink
            .as_ref()
            .unwrap()
            .started
            .iter()
            .any(|(_, f)| matches!(f, Frame::Error(e) if e.code == REPLIER_ALREADY_BOUND))
    }

    /// harness-level: has this replier left (stream ended/failed by the harness, or a sink fault fired)?
    fn rep_departed_at(&self, w: &World, rep: usize) -> Option<u64> {
        let left = self.rep_meta[&rep].left_at;
        let failed = w.peers[rep].sink.as_ref().unwrap().failed.map(|(_, t)| t);
        match (left, failed) {
            (Some(a), Some(b)) => Some(a.min(b)),
            (a, b) => a.or(b),
        }
    }

    /// last time the router called anything on this peer's mocks
    fn last_touch(w: &World, peer: usize) -> Option<u64> {
        w.log.iter().rev().find_map(|e| match &e.kind {
            EvKind::Call { peer: p, .. } if *p == peer => Some(e.t),
            _ => None,
        })
    }

    /// router-level: time at which the router observed the departure
    fn rep_departure_seen(w: &World, rep: usize) -> Option<u64> {
        let st = w.peers[rep].stream.as_ref().unwrap();
        let si = w.peers[rep].sink.as_ref().unwrap();
        let mut c: Vec<u64> = vec![];
        if let Some(t) = st.end_seen {
            c.push(t);
        }
        if let Some((_, t)) = si.failed {
            c.push(t);
        }
        c.into_iter().min()
    }

    fn key_of(m: &MessagePayload) -> Vec<u8> {
        if m.message.len() > 4096 {
            m.message[..40].to_vec()
        } else {
            m.message.to_vec()
        }
    }

    fn quiescent_checks(&mut self, at: &str) {
        let w = lock(&self.sh);
        let running = self.alive;
        let dead = !self.alive && !self.completed;
        let dead_tag = if dead { "/router-dead" } else { "" };
        // C16 states the flush obligation for pub/sub messages only: once the channel is closed a
        // req/rep router may drop what it buffered, so loss/flush oracles stop there (safety
        // oracles — duplication, misrouting, alteration — continue to apply)
        let shutting_down = self.closed;

        // ---- classification of repliers --------------------------------------------------
        let rejected_set: HashSet<usize> = self.reps.iter().copied().filter(|r| Self::is_rejected(&w, *r)).collect();
        let mut bound_live: Vec<usize> = vec![];
        for &r in &self.reps {
            let pe = &w.peers[r];
            if pe.reg_sent.is_none() {
                continue;
            }
            let rejected = Self::is_rejected(&w, r);
            let departed = self.rep_departed_at(&w, r).is_some();
            let served = pe.stream.as_ref().unwrap().first_touch.is_some();
            if rejected {
                let si = pe.sink.as_ref().unwrap();
                // exactly the one error frame, then close, never a request
                if si.started.len() != 1 {
                    self.findings.push(Finding {
                        class: "binding",
                        sig: "reqrep/rejected-replier-got-more".into(),
                        detail: format!("{}: rejected replier {} was handed {} frames: {:?}", at, pe.label, si.started.len(), si.started.iter().map(|(_, f)| format!("{:?}", f)).collect::<Vec<_>>()),
                    });
                }
                if running && si.healthy() && si.closed.is_none() && !self.closed {
                    self.findings.push(Finding {
                        class: "binding-stalled",
                        sig: "reqrep/rejected-replier-not-closed".into(),
                        detail: format!("{}: rejected replier {} received the replier-already-bound error but its stream was never closed and no wake-up is outstanding", at, pe.label),
                    });
                }
                // was anybody else around who could have been bound? The router keeps polling the
                // stream of the replier it considers bound, so a replier it still touched after
                // this registration was sent may legitimately have been the reason for the rejection
                // (a registration racing with a departure may be bound or rejected).
                let t_err = si.started[0].0;
                let reg = pe.reg_sent.unwrap();
                let other = self.reps.iter().any(|&o| {
                    o != r
                        && w.peers[o].reg_sent.map_or(false, |t| t < t_err)
                        && match Self::rep_departure_seen(&w, o) {
                            // never seen to leave: may well be bound
                            None => true,
                            // seen to leave: the unbinding (flush of its sink and of the requestor
                            // sinks) may still be in progress; it is certainly complete only once
                            // the router has reached a quiescent point after that
                            Some(d) => !self.quiescent_times.iter().any(|q| d < *q && *q < reg),
                        }
                        && !Self::is_rejected(&w, o)
                });
                if !other {
                    self.findings.push(Finding {
                        class: "binding",
                        sig: "reqrep/rejected-without-bound-replier".into(),
                        detail: format!("{}: {} was rejected with replier-already-bound at t={} although no other replier could have been bound between its registration (t={}) and then", at, pe.label, t_err, reg),
                    });
                }
                if served {
                    // a rejected replier whose stream is read is not a violation by itself
                }
                continue;
            }
            if departed {
                continue;
            }
            if served {
                bound_live.push(r);
            } else if running && !self.closed {
                self.findings.push(Finding {
                    class: "binding-stalled",
                    sig: "reqrep/replier-ignored".into(),
                    detail: format!("{}: replier {} registered at t={:?} is neither served nor rejected, every sink is ready and no wake-up is outstanding", at, pe.label, pe.reg_sent),
                });
            }
        }
        if bound_live.len() > 1 {
            self.findings.push(Finding {
                class: "binding",
                sig: "reqrep/two-repliers-served".into(),
                detail: format!("{}: more than one live replier is being served: {:?}", at, bound_live.iter().map(|r| w.peers[*r].label.clone()).collect::<Vec<_>>()),
            });
        }

        // ---- C09 sleep: unread input ---------------------------------------------------------
        if running && !self.closed {
            for &p in &self.reqs {
                let pe = &w.peers[p];
                if pe.reg_sent.is_none() {
                    continue;
                }
                let st = pe.stream.as_ref().unwrap();
                if !st.queue.is_empty() {
                    let never = st.first_touch.is_none();
                    self.findings.push(Finding {
                        class: if never { "abandoned" } else if at.contains("error storm") { "starved-after-failure" } else { "sleep" },
                        sig: format!("reqrep/sleep/unread-requests{}", if never { "/registration-unnoticed" } else { "" }),
                        detail: format!("{}: router parked with no wake-up outstanding while {} has {} frame(s) ready{}", at, pe.label, st.queue.len(), if never { " (registration never noticed)" } else { "" }),
                    });
                }
            }
            for &r in &bound_live {
                let st = w.peers[r].stream.as_ref().unwrap();
                if !st.queue.is_empty() {
                    self.findings.push(Finding {
                        class: if at.contains("error storm") { "starved-after-failure" } else { "sleep" },
                        sig: "reqrep/sleep/unread-replies".into(),
                        detail: format!("{}: router parked with no wake-up outstanding while bound replier {} has {} reply frame(s) ready", at, w.peers[r].label, st.queue.len()),
                    });
                }
            }
        }
        if self.closed && running {
            self.findings.push(Finding {
                class: "shutdown",
                sig: "reqrep/close-unnoticed".into(),
                detail: format!("{}: registration channel closed, every sink ready, no wake-up outstanding, yet the router future has not completed", at),
            });
        }

        // ---- request leg ------------------------------------------------------------------------
        // deliveries of requests to replier sinks, in time order
        let mut deliveries: Vec<(u64, usize, usize, Frame)> = vec![]; // (t, replier, uid, frame)
        for &r in &self.reps {
            let si = w.peers[r].sink.as_ref().unwrap();
            for (t, f) in &si.started {
                match f {
                    Frame::Message(m) => match self.pay_index.get(&Self::key_of(m)) {
                        Some(uid) if matches!(w.items[*uid].class, "request" | "probe-request" | "big-request") => {
                            deliveries.push((*t, r, *uid, f.clone()))
                        }
                        Some(uid) if w.items[*uid].class == "hostile" => {}
                        _ => self.findings.push(Finding {
                            class: "routing",
                            sig: "reqrep/alien-frame-to-replier".into(),
                            detail: format!("{}: replier {} was handed a frame no requestor sent: {:?}", at, w.peers[r].label, f),
                        }),
                    },
                    Frame::Error(e) if e.code == REPLIER_ALREADY_BOUND => {}
                    other => {
                        // hostile frames relayed to the replier are tolerated only in the hostile family
                        if !self.hostile {
                            self.findings.push(Finding {
                                class: "routing",
                                sig: "reqrep/unexpected-frame-to-replier".into(),
                                detail: format!("{}: replier {} was handed {:?}", at, w.peers[r].label, other),
                            });
                        }
                    }
                }
            }
        }
        deliveries.sort_by_key(|d| d.0);
        let mut cid_of: HashMap<usize, String> = HashMap::new(); // requestor -> cid
        let mut seen_uid: HashMap<usize, usize> = HashMap::new();
        let mut last_seq: HashMap<(usize, usize), u32> = HashMap::new();
        let mut current: Option<usize> = None;
        for (t, r, uid, f) in &deliveries {
            let it = &w.items[*uid];
            *seen_uid.entry(*uid).or_insert(0) += 1;
            if seen_uid[uid] == 2 {
                self.findings.push(Finding {
                    class: "routing",
                    sig: "reqrep/request-duplicated".into(),
                    detail: format!("{}: request uid={} of {} was handed to a replier more than once", at, uid, w.peers[it.producer].label),
                });
            }
            if let Some(prev) = last_seq.get(&(it.producer, *r)) {
                if *prev >= it.seq {
                    self.findings.push(Finding {
                        class: "routing",
                        sig: "reqrep/request-reordered".into(),
                        detail: format!("{}: replier {} got seq {} of {} after seq {}", at, w.peers[*r].label, it.seq, w.peers[it.producer].label, prev),
                    });
                }
            }
            last_seq.insert((it.producer, *r), it.seq);
            // at most one replier receives at any moment
            if rejected_set.contains(r) {
                self.findings.push(Finding {
                    class: "binding",
                    sig: "reqrep/request-to-rejected-replier".into(),
                    detail: format!("{}: rejected replier {} was handed request uid={}", at, w.peers[*r].label, uid),
                });
            }
            if let Some(c) = current {
                if c != *r {
                    let gone = Self::rep_departure_seen(&w, c).map_or(false, |d| d < *t);
                    if !gone {
                        self.findings.push(Finding {
                            class: "binding",
                            sig: "reqrep/two-repliers-receiving".into(),
                            detail: format!("{}: request uid={} went to {} at t={} while {} (which received requests before) had not departed", at, uid, w.peers[*r].label, t, w.peers[c].label),
                        });
                    }
                }
            }
            current = Some(*r);
            // tag and content
            if let (Frame::Message(got), Frame::Message(sent)) = (f, &it.frame) {
                if got.message != sent.message {
                    self.findings.push(Finding {
                        class: "routing",
                        sig: "reqrep/request-payload-altered".into(),
                        detail: format!("{}: request uid={} payload altered on its way to the replier", at, uid),
                    });
                }
                let gh = got.headers.clone().unwrap_or_default();
                let mut sh_ = sent.headers.clone().unwrap_or_default();
                sh_.remove("cid");
                let mut gh_rest = gh.clone();
                gh_rest.remove("cid");
                if gh_rest != sh_ {
                    self.findings.push(Finding {
                        class: "routing",
                        sig: "reqrep/request-headers-altered".into(),
                        detail: format!("{}: request uid={} headers altered: sent {:?}, replier saw {:?}", at, uid, sent.headers, got.headers),
                    });
                }
                match gh.get("cid") {
                    None => self.findings.push(Finding {
                        class: "routing",
                        sig: "reqrep/request-without-origin-tag".into(),
                        detail: format!("{}: request uid={} reached the replier without an origin tag", at, uid),
                    }),
                    Some(c) => {
                        match cid_of.get(&it.producer) {
                            Some(prev) if prev != c => self.findings.push(Finding {
                                class: "routing",
                                sig: "reqrep/origin-tag-inconsistent".into(),
                                detail: format!("{}: requests of {} carried origin tags {:?} and {:?} (forged tag sent: {:?})", at, w.peers[it.producer].label, prev, c, it.cid),
                            }),
                            Some(_) => {}
                            None => {
                                // sharing a tag is a violation only between requestors that are connected at
                                // the same time (re-using the tag of a requestor that has left is not forbidden
                                // by the statement; misrouting that results from it is caught on the reply leg)
                                let concurrent = |o: usize| {
                                    let st = w.peers[o].stream.as_ref().unwrap();
                                    st.end_seen.map_or(true, |e| e > *t) && w.peers[o].sink.as_ref().unwrap().healthy()
                                };
                                if let Some((other, _)) = cid_of.iter().find(|(o, v)| **o != it.producer && *v == c && concurrent(**o)) {
                                    self.findings.push(Finding {
                                        class: "routing",
                                        sig: "reqrep/origin-tag-shared".into(),
                                        detail: format!("{}: {} and {} carry the same origin tag {:?} (forged tag sent: {:?})", at, w.peers[it.producer].label, w.peers[*other].label, c, it.cid),
                                    });
                                }
                                cid_of.insert(it.producer, c.clone());
                            }
                        }
                    }
                }
            }
        }
        // must-deliver: a replier bound before the request was taken and that never left
        let mut delivered_to: HashMap<usize, Vec<usize>> = HashMap::new();
        for d in &deliveries {
            delivered_to.entry(d.2).or_default().push(d.1);
        }
        for &r in &bound_live {
            let bound_since = w.peers[r].stream.as_ref().unwrap().first_touch.unwrap();
            let rsi = w.peers[r].sink.as_ref().unwrap();
            if !rsi.healthy() {
                continue;
            }
            for &q in &self.reqs {
                let st = w.peers[q].stream.as_ref().unwrap();
                for (t, uid) in &st.yielded {
                    let it = &w.items[*uid];
                    if !matches!(it.class, "request" | "probe-request") || *t <= bound_since {
                        continue;
                    }
                    let n = delivered_to.get(uid).map_or(0, |v| v.iter().filter(|x| **x == r).count());
                    if n == 0 && !shutting_down {
                        self.findings.push(Finding {
                            class: "routing",
                            sig: format!("reqrep/request-lost{}", dead_tag),
                            detail: format!("{}: request uid={} (seq {} of {}) was taken by the router at t={} while {} was bound (since t={}) and stayed bound, but was never handed to it", at, uid, it.seq, w.peers[q].label, t, w.peers[r].label, bound_since),
                        });
                    }
                }
            }
            if rsi.flushed != rsi.started.len() && !shutting_down {
                self.findings.push(Finding {
                    class: "flush",
                    sig: format!("reqrep/replier-unflushed{}", dead_tag),
                    detail: format!("{}: bound replier {} was handed {} frame(s), only {} flushed, nothing will wake the router", at, w.peers[r].label, rsi.started.len(), rsi.flushed),
                });
            }
        }

        // ---- reply leg -----------------------------------------------------------------------------
        let req_by_cid: HashMap<String, usize> = cid_of.iter().map(|(k, v)| (v.clone(), *k)).collect();
        // what every requestor sink received
        let mut got: HashMap<usize, Vec<(usize, Frame)>> = HashMap::new(); // reply uid -> [(requestor, frame)]
        for &q in &self.reqs {
            let si = w.peers[q].sink.as_ref().unwrap();
            for (_, f) in &si.started {
                match f {
                    Frame::Message(m) => match self.pay_index.get(&Self::key_of(m)) {
                        Some(uid) if matches!(w.items[*uid].class, "reply" | "malformed-reply") => {
                            got.entry(*uid).or_default().push((q, f.clone()));
                        }
                        Some(uid) if w.items[*uid].class == "hostile" => {}
                        _ => self.findings.push(Finding {
                            class: "routing",
                            sig: "reqrep/alien-frame-to-requestor".into(),
                            detail: format!("{}: requestor {} was handed a frame no replier emitted: {:?}", at, w.peers[q].label, f),
                        }),
                    },
                    other => {
                        if !self.hostile {
                            self.findings.push(Finding {
                                class: "routing",
                                sig: "reqrep/unexpected-frame-to-requestor".into(),
                                detail: format!("{}: requestor {} was handed {:?}", at, w.peers[q].label, other),
                            });
                        }
                    }
                }
            }
            if si.healthy() && si.flushed != si.started.len() && w.peers[q].reg_sent.is_some() && !shutting_down {
                self.findings.push(Finding {
                    class: "flush",
                    sig: format!("reqrep/requestor-unflushed{}", dead_tag),
                    detail: format!("{}: requestor {} was handed {} frame(s), only {} flushed, nothing will wake the router", at, w.peers[q].label, si.started.len(), si.flushed),
                });
            }
        }
        for &r in &self.reps {
            let st = w.peers[r].stream.as_ref().unwrap();
            for (t, uid) in &st.yielded {
                let it = &w.items[*uid];
                if !matches!(it.class, "reply" | "malformed-reply") {
                    continue;
                }
                let recv = got.get(uid).cloned().unwrap_or_default();
                // the requestor whose request this reply answers (the scripted replier echoes the tag of
                // that very request); the tag→requestor map is only the fallback
                let target = match it.answers {
                    Some(req_uid) if it.cid.is_some() => Some(w.items[req_uid].producer),
                    _ => it.cid.as_ref().and_then(|c| req_by_cid.get(c)).copied(),
                };
                match target {
                    Some(q) if it.class == "reply" => {
                        for (who, _) in recv.iter().filter(|(who, _)| *who != q) {
                            self.findings.push(Finding {
                                class: "routing",
                                sig: "reqrep/reply-misrouted".into(),
                                detail: format!("{}: reply uid={} tagged for {} was handed to {}", at, uid, w.peers[q].label, w.peers[*who].label),
                            });
                        }
                        let mine: Vec<&(usize, Frame)> = recv.iter().filter(|(who, _)| *who == q).collect();
                        let qs = w.peers[q].sink.as_ref().unwrap();
                        // `connected`: its sink is healthy. A requestor that has finished *sending* (half-close)
                        // but keeps reading still has replies owed to it.
                        let connected = qs.healthy();
                        let _ = t;
                        if mine.len() > 1 {
                            self.findings.push(Finding {
                                class: "routing",
                                sig: "reqrep/reply-duplicated".into(),
                                detail: format!("{}: reply uid={} was handed to {} {} times", at, uid, w.peers[q].label, mine.len()),
                            });
                        }
                        if mine.is_empty() && connected && !shutting_down {
                            self.findings.push(Finding {
                                class: "routing",
                                sig: format!("reqrep/reply-lost{}", dead_tag),
                                detail: format!("{}: reply uid={} (taken from {} at t={}) for still-connected {} was never handed to it", at, uid, w.peers[r].label, t, w.peers[q].label),
                            });
                        }
                        for (_, f) in mine {
                            if let (Frame::Message(g), Frame::Message(s)) = (f, &it.frame) {
                                let mut exp = s.headers.clone().unwrap_or_default();
                                exp.remove("cid");
                                let exp = if exp.is_empty() { None } else { Some(exp) };
                                if g.message != s.message || g.headers != exp {
                                    self.findings.push(Finding {
                                        class: "routing",
                                        sig: "reqrep/reply-altered".into(),
                                        detail: format!("{}: reply uid={} altered: emitted {:?}, requestor saw headers {:?} payload {} bytes", at, uid, s, g.headers, g.message.len()),
                                    });
                                }
                            }
                        }
                    }
                    _ => {
                        // malformed / unknown tag: nobody may receive it
                        if it.class == "malformed-reply" && !recv.is_empty() {
                            self.findings.push(Finding {
                                class: "routing",
                                sig: "reqrep/malformed-reply-forwarded".into(),
                                detail: format!("{}: reply uid={} with malformed routing tag was handed to {:?}", at, uid, recv.iter().map(|(q, _)| w.peers[*q].label.clone()).collect::<Vec<_>>()),
                            });
                        }
                    }
                }
            }
        }
    }

    /// end-to-end probe through the router: a request must reach exactly one live replier and the
    /// scripted answer must come back
    fn probe(&mut self) {
        if !self.alive || self.closed {
            return;
        }
        let (live_req, live_rep) = {
            let w = lock(&self.sh);
            let q = self.reqs.iter().copied().find(|q| {
                let pe = &w.peers[*q];
                pe.reg_sent.is_some() && !pe.stream.as_ref().unwrap().ended && pe.sink.as_ref().unwrap().healthy()
            });
            let r = self.reps.iter().copied().find(|r| {
                let pe = &w.peers[*r];
                pe.reg_sent.is_some()
                    && self.rep_departed_at(&w, *r).is_none()
                    && !Self::is_rejected(&w, *r)
                    && pe.stream.as_ref().unwrap().first_touch.is_some()
            });
            (q, r)
        };
        let rep = match live_rep {
            Some(r) => r,
            None => {
                // every earlier replier has left or was rejected: a fresh one must be able to bind
                let r = self.new_peer(Kind::Replier, 0, None, false);
                self.register(r);
                r
            }
        };
        let q = match live_req {
            Some(q) => q,
            None => {
                let q = self.new_peer(Kind::Requestor, 0, None, false);
                self.register(q);
                q
            }
        };
        if !self.settle("probe: registrations") {
            return;
        }
        let uid = self.request(q, "probe-request", false);
        if !self.settle("probe: request") || !self.alive {
            return;
        }
        let delivered = {
            let w = lock(&self.sh);
            let it_pl = match &w.items[uid].frame {
                Frame::Message(m) => m.message.clone(),
                _ => unreachable!(),
            };
            let mut n = vec![];
            for &r in &self.reps {
                let c = w.peers[r]
                    .sink
                    .as_ref()
                    .unwrap()
                    .started
                    .iter()
                    .filter(|(_, f)| matches!(f, Frame::Message(m) if m.message == it_pl))
                    .count();
                if c > 0 {
                    n.push((r, c));
                }
            }
            n
        };
        {
            let w = lock(&self.sh);
            let yielded = w.peers[q].stream.as_ref().unwrap().yielded.iter().any(|(_, u)| *u == uid);
            if !yielded {
                let never = w.peers[q].stream.as_ref().unwrap().first_touch.is_none();
                self.findings.push(Finding {
                    class: if never { "abandoned" } else { "sleep" },
                    sig: format!("reqrep/sleep/probe-request-unread{}", if never { "/registration-unnoticed" } else { "" }),
                    detail: format!("after quiescence {} sent a probe request; the router never read it{}", w.peers[q].label, if never { " (requestor registration unnoticed)" } else { "" }),
                });
                return;
            }
            if delivered.len() != 1 || delivered[0].1 != 1 || delivered[0].0 != rep {
                let rejected = Self::is_rejected(&w, rep);
                let served = w.peers[rep].stream.as_ref().unwrap().first_touch.is_some();
                self.findings.push(Finding {
                    class: "probe",
                    sig: format!(
                        "reqrep/probe-request-{}",
                        if delivered.is_empty() {
                            if rejected {
                                "undelivered/fresh-replier-rejected"
                            } else if !served {
                                "undelivered/replier-not-bound"
                            } else {
                                "undelivered"
                            }
                        } else {
                            "misdelivered"
                        }
                    ),
                    detail: format!(
                        "after quiescence the only live replier is {}; probe request uid={} from {} was delivered to {:?}",
                        w.peers[rep].label,
                        uid,
                        w.peers[q].label,
                        delivered.iter().map(|(r, c)| format!("{}x{}", w.peers[*r].label, c)).collect::<Vec<_>>()
                    ),
                });
                return;
            }
        }
        let rep_uid = match self.reply(rep, false, Some(uid)) {
            Some(u) => u,
            None => {
                self.findings.push(Finding {
                    class: "flush",
                    sig: "reqrep/probe-request-unflushed".into(),
                    detail: "probe request was handed to the replier sink but never flushed".into(),
                });
                return;
            }
        };
        if !self.settle("probe: reply") || !self.alive {
            return;
        }
        let w = lock(&self.sh);
        let pl = match &w.items[rep_uid].frame {
            Frame::Message(m) => m.message.clone(),
            _ => unreachable!(),
        };
        let n = w.peers[q]
            .sink
            .as_ref()
            .unwrap()
            .started
            .iter()
            .filter(|(_, f)| matches!(f, Frame::Message(m) if m.message == pl))
            .count();
        if n != 1 {
            self.findings.push(Finding {
                class: "probe",
                sig: format!("reqrep/probe-reply-{}", if n == 0 { "undelivered" } else { "duplicated" }),
                detail: format!("probe reply uid={} from {} reached {} {} time(s)", rep_uid, w.peers[rep].label, w.peers[q].label, n),
            });
        }
    }

    fn close(&mut self) {
        self.tx.close_channel();
        self.closed = true;
        lock(&self.sh).act("close registration channel".into());
    }
}

pub fn run(seed: u64, family: &str, keep_dump: bool) -> RunResult {
    set_run_seed(seed);
    let mut rng = Rng::new(seed);
    let cfg = gen_cfg(&mut rng, family);
    let sh: Shared = Arc::new(Mutex::new(World::new(rng.next_u64())));
    let (topic, tx) = Topic::<SeliumError>::pair();
    let flag = WakeFlag::new();
    flag.set();
    let mut sim = Sim {
        sh: sh.clone(),
        flag,
        fut: Box::pin(topic),
        tx,
        alive: true,
        completed: false,
        poll_no: 0,
        stats: RunStats::default(),
        findings: vec![],
        reqs: vec![],
        reps: vec![],
        rep_meta: HashMap::new(),
        next_seq: HashMap::new(),
        emissions: 0,
        closed: false,
        rng: rng.fork(),
        pay_index: HashMap::new(),
        states: vec![],
        hostile: cfg.hostile,
        quiescent_times: vec![],
    };
    for i in 0..cfg.n_reqs {
        let fault = if cfg.faults && rng.pct(50) {
            Some(Fault { op: *rng.pick(&[Op::Ready, Op::Start, Op::Flush]), nth: rng.below(4) as u32 })
        } else {
            None
        };
        sim.new_peer(Kind::Requestor, cfg.profiles[i], fault, false);
    }
    for j in 0..cfg.n_reps {
        let fault = if cfg.faults && rng.pct(50) {
            Some(Fault { op: *rng.pick(&[Op::Ready, Op::Start, Op::Flush, Op::Flush, Op::Close]), nth: rng.below(4) as u32 })
        } else {
            None
        };
        sim.new_peer(Kind::Replier, cfg.profiles[cfg.n_reqs + j], fault, cfg.hostile);
    }
    let mut remaining: HashMap<usize, u32> = sim.reqs.iter().copied().zip(cfg.requests.iter().copied()).collect();
    if cfg.prefill > 0 {
        let mut all: Vec<usize> = sim.reqs.iter().chain(sim.reps.iter()).copied().collect();
        for _ in 0..cfg.prefill.min(all.len()) {
            let k = sim.rng.usize(all.len());
            let p = all.swap_remove(k);
            sim.register(p);
        }
    }
    let mut big_left = if cfg.hostile { 2 } else { 0 };

    #[derive(Clone, Copy, Debug)]
    enum A {
        Poll,
        Spurious,
        Reg(usize),
        Request(usize),
        Big(usize),
        Hostile(usize),
        Reply(usize),
        BadReply(usize),
        End(usize),
        Err(usize),
        Unblock(usize),
        Mini,
    }

    for step in 0..cfg.steps {
        if !sim.alive {
            break;
        }
        if cfg.close_at == Some(step) && !sim.closed {
            sim.close();
            continue;
        }
        if let Some((at, count)) = cfg.err_storm {
            if at == step && !sim.closed {
                let mut live: Vec<usize> = {
                    let w = lock(&sh);
                    sim.reqs.iter().copied().filter(|p| w.peers[*p].reg_sent.is_some() && !w.peers[*p].stream.as_ref().unwrap().ended).collect()
                };
                lock(&sh).act(format!("error storm: up to {} requestor streams fail back to back", count));
                let healthy_asks = sim.rng.range(1, 8) as usize;
                let mut failed = 0;
                while failed < count && live.len() > healthy_asks {
                    let k = sim.rng.usize(live.len());
                    let p = live.swap_remove(k);
                    if sim.rng.pct(30) {
                        // several errors in a row from one stream before it ends
                        for _ in 0..sim.rng.range(1, 9) {
                            let wk = lock(&sh).enqueue(p, QItem::Err);
                            sim.fire(wk);
                        }
                    }
                    sim.leave(p, true);
                    failed += 1;
                }
                for _ in 0..healthy_asks.min(live.len()) {
                    let k = sim.rng.usize(live.len());
                    let p = live.swap_remove(k);
                    sim.request(p, "request", false);
                }
                if sim.settle("after error storm") && sim.alive {
                    sim.quiescent_checks("quiescence after an error storm");
                }
                sim.end_settle();
                continue;
            }
        }
        if let Some((at, count)) = cfg.storm {
            if at == step && !sim.closed {
                let mut fresh: Vec<usize> = {
                    let w = lock(&sh);
                    sim.reqs.iter().chain(sim.reps.iter()).copied().filter(|p| w.peers[*p].reg_sent.is_none()).collect()
                };
                lock(&sh).act(format!("registration storm: up to {} peers register back to back", count));
                for _ in 0..count.min(fresh.len()) {
                    let k = sim.rng.usize(fresh.len());
                    let p = fresh.swap_remove(k);
                    sim.register(p);
                    if sim.reqs.contains(&p) && sim.rng.pct(40) {
                        sim.request(p, "request", false);
                    }
                }
                if sim.settle("after registration storm") && sim.alive {
                    sim.quiescent_checks("quiescence after a registration storm");
                }
                sim.end_settle();
                continue;
            }
        }
        let mut acts: Vec<(A, u32)> = vec![];
        if sim.flag.is_woken() {
            acts.push((A::Poll, 12));
        } else if cfg.spurious {
            acts.push((A::Spurious, 1));
        }
        {
            let w = lock(&sh);
            for &q in &sim.reqs {
                let pe = &w.peers[q];
                let st = pe.stream.as_ref().unwrap();
                if pe.reg_sent.is_none() {
                    if !sim.closed {
                        acts.push((A::Reg(q), 3));
                    }
                    continue;
                }
                if st.ended {
                    continue;
                }
                let rem = *remaining.get(&q).unwrap_or(&0);
                if rem > 0 {
                    acts.push((A::Request(q), 4));
                    if cfg.hostile {
                        acts.push((A::Hostile(q), 2));
                        if big_left > 0 {
                            acts.push((A::Big(q), 1));
                        }
                    }
                }
                acts.push((A::End(q), if rem == 0 { 1 } else { 0 }));
                if cfg.faults {
                    acts.push((A::Err(q), 1));
                }
                if pe.sink.as_ref().unwrap().is_blocked() {
                    acts.push((A::Unblock(q), 4));
                }
            }
            for &r in &sim.reps {
                let pe = &w.peers[r];
                let st = pe.stream.as_ref().unwrap();
                if pe.reg_sent.is_none() {
                    if !sim.closed {
                        acts.push((A::Reg(r), 2));
                    }
                    continue;
                }
                if pe.sink.as_ref().unwrap().is_blocked() {
                    acts.push((A::Unblock(r), 4));
                }
                if st.ended {
                    continue;
                }
                let si = pe.sink.as_ref().unwrap();
                let has_req = si.started.iter().take(si.flushed).any(|(_, f)| matches!(f, Frame::Message(_)));
                if has_req {
                    acts.push((A::Reply(r), 5));
                    if cfg.malformed_replies {
                        acts.push((A::BadReply(r), 1));
                    }
                }
                if cfg.hostile && st.first_touch.is_some() {
                    acts.push((A::Hostile(r), 1));
                }
                if cfg.repliers_leave {
                    acts.push((A::End(r), 1));
                    if cfg.faults {
                        acts.push((A::Err(r), 1));
                    }
                }
            }
        }
        if cfg.mini_settle && !sim.closed {
            acts.push((A::Mini, 1));
        }
        acts.retain(|a| a.1 > 0);
        if acts.is_empty() {
            break;
        }
        let total: u32 = acts.iter().map(|a| a.1).sum();
        let mut r = sim.rng.below(total as u64) as u32;
        let mut chosen = acts[0].0;
        for (a, wgt) in &acts {
            if r < *wgt {
                chosen = *a;
                break;
            }
            r -= wgt;
        }
        sim.stats.actions += 1;
        match chosen {
            A::Poll => sim.poll(),
            A::Spurious => {
                lock(&sh).act("spurious poll".into());
                sim.poll()
            }
            A::Reg(p) => sim.register(p),
            A::Request(q) => {
                let k = if family == "firehose" { (sim.rng.range(300, 1500) as u32).min(remaining[&q]) } else { 1 };
                for _ in 0..k {
                    *remaining.get_mut(&q).unwrap() -= 1;
                    sim.request(q, "request", false);
                }
            }
            A::Big(q) => {
                big_left -= 1;
                sim.request(q, "big-request", true);
            }
            A::Hostile(p) => sim.hostile_frame(p),
            A::Reply(r) => {
                sim.reply(r, false, None);
            }
            A::BadReply(r) => {
                sim.reply(r, true, None);
            }
            A::End(p) => sim.leave(p, false),
            A::Err(p) => sim.leave(p, true),
            A::Unblock(s) => {
                let mut w = lock(&sh);
                let label = w.peers[s].label.clone();
                w.act(format!("{} becomes writable", label));
                let wk = w.unblock(s);
                drop(w);
                sim.fire(wk);
            }
            A::Mini => {
                if sim.settle("mid-run") && sim.alive {
                    sim.quiescent_checks("mid-run quiescence");
                }
                sim.end_settle();
            }
        }
    }

    if sim.alive {
        if sim.settle("final") {
            sim.quiescent_checks("final quiescence");
        }
    } else {
        sim.quiescent_checks(if sim.completed { "after completion" } else { "after router death" });
    }
    if sim.alive && !sim.closed {
        // faults stop: plans that have not fired yet are disarmed before the end-to-end probe
        {
            let mut w = lock(&sh);
            for p in w.peers.iter_mut() {
                if let Some(si) = p.sink.as_mut() {
                    if si.failed.is_none() {
                        si.plan.fault = None;
                    }
                }
            }
        }
        sim.probe();
        if sim.alive {
            sim.quiescent_checks("after probe");
        }
    }
    if sim.alive && !sim.closed && cfg.close_at_end {
        sim.close();
        if sim.settle("after close") {
            sim.quiescent_checks("after close");
        }
    }

    let w = lock(&sh);
    let mut stats = sim.stats.clone();
    stats.mock_calls = w.mock_calls;
    for p in &w.peers {
        if let Some(si) = &p.sink {
            stats.deliveries += si.started.len() as u64;
            stats.pendings += si.pendings as u64;
            if si.failed.is_some() {
                stats.faults_fired += 1;
            }
        }
        if let Some(st) = &p.stream {
            stats.items_yielded += st.yielded.len() as u64;
            stats.pendings += st.pendings as u64;
            stats.faults_fired += st.errs_yielded as u64;
        }
    }
    let (trace_hash, poll_sigs) = hash_log(&w);
    let nontrivial = stats.deliveries >= 1 && (stats.pendings >= 1 || stats.faults_fired >= 1);
    let mut goals: Vec<&'static str> = vec![];
    if sim.closed && sim.completed {
        goals.push("router-completed-after-close");
    }
    if sim.reps.iter().any(|r| Sim::is_rejected(&w, *r)) {
        goals.push("second-replier-rejected");
    }
    if w.items.iter().any(|i| i.class == "malformed-reply") {
        goals.push("malformed-reply-emitted");
    }
    if w.items.iter().any(|i| i.class == "request" && i.cid.is_some()) {
        goals.push("forged-cid-sent");
    }
    if w.items.iter().any(|i| i.class == "big-request") {
        goals.push("near-limit-request");
    }
    {
        // a reply was taken while a requestor sink was blocked
        let mut blocked_now = 0i32;
        let mut hit = false;
        for e in &w.log {
            if let EvKind::Call { peer, op, out, .. } = &e.kind {
                if w.peers[*peer].kind == Kind::Requestor && *op == Op::Ready {
                    if matches!(out, Out::Pending | Out::Coop) {
                        blocked_now += 1;
                    } else {
                        blocked_now = 0;
                    }
                }
                if w.peers[*peer].kind == Kind::Replier && *op == Op::Next && *out == Out::Item && blocked_now > 0 {
                    hit = true;
                }
            }
        }
        if hit {
            goals.push("reply-taken-while-requestor-sink-pending");
        }
    }
    if sim.reps.iter().filter(|r| w.peers[**r].stream.as_ref().unwrap().first_touch.is_some()).count() >= 2 {
        goals.push("replier-rebound-after-departure");
    }
    let config = json!({
        "engine": "routersim/reqrep", "family": family, "seed": seed,
        "n_requestors": cfg.n_reqs, "n_repliers": cfg.n_reps, "requests": cfg.requests, "steps": cfg.steps,
        "spurious_polls": cfg.spurious, "close_at": cfg.close_at, "close_at_end": cfg.close_at_end,
        "faults": cfg.faults, "hostile": cfg.hostile, "profiles": cfg.profiles, "registrations_queued_before_first_poll": cfg.prefill, "registration_storm_step_count": cfg.storm, "error_storm_step_count": cfg.err_storm,
    });
    let dump = if keep_dump || !sim.findings.is_empty() {
        Some(dump_world(&w, 500))
    } else {
        None
    };
    RunResult {
        seed,
        family: family.to_string(),
        findings: sim.findings.clone(),
        stats,
        trace_hash,
        nontrivial,
        poll_sigs,
        states: sim.states.clone(),
        goals,
        config,
        dump,
    }
}

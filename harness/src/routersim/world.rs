//! Mock peers and the boundary event log for the L1 router simulator.
//!
//! Everything the real router futures (`pubsub::Topic`, `reqrep::Topic`, `FanoutMany`,
//! `Router`) can observe of a peer goes through `MockStream` / `MockSink`; everything the
//! oracles know comes from the `World` those mocks write into. Nothing is recorded inside the
//! implementation under test.

use crate::common::Rng;
use bytes::BytesMut;
use futures::{Sink, Stream};
use selium_protocol::{Frame, MessageCodec};
use selium_std::errors::SeliumError;
use std::collections::VecDeque;
use std::pin::Pin;
use std::sync::{Arc, Mutex, MutexGuard};
use std::task::{Context, Poll, Waker};
use tokio_util::codec::Encoder;

#[derive(Clone, Copy, Debug, PartialEq, Eq, Hash, PartialOrd, Ord)]
pub enum Op {
    Ready = 0,
    Start = 1,
    Flush = 2,
    Close = 3,
    Next = 4,
}

impl Op {
    pub fn name(self) -> &'static str {
        match self {
            Op::Ready => "poll_ready",
            Op::Start => "start_send",
            Op::Flush => "poll_flush",
            Op::Close => "poll_close",
            Op::Next => "poll_next",
        }
    }
}

#[derive(Clone, Copy, Debug, PartialEq, Eq, Hash)]
pub enum Out {
    Ok,
    Pending,
    Coop,
    Err,
    Item,
    ErrItem,
    End,
}

impl Out {
    pub fn name(self) -> &'static str {
        match self {
            Out::Ok => "ok",
            Out::Pending => "pending",
            Out::Coop => "pending+selfwake",
            Out::Err => "err",
            Out::Item => "item",
            Out::ErrItem => "err-item",
            Out::End => "end",
        }
    }
}

#[derive(Clone, Copy, Debug, PartialEq, Eq)]
pub enum PollRes {
    Pending,
    Ready,
    Panic,
    Spin,
}

#[derive(Clone, Debug)]
pub enum EvKind {
    /// a call the router made on a mock
    Call {
        peer: usize,
        op: Op,
        out: Out,
        /// item uid for yields; index into `started` for start_send
        ix: Option<usize>,
    },
    /// an action of the harness (scheduler)
    Act(String),
    PollBegin(u64),
    PollEnd(PollRes),
}

#[derive(Clone, Debug)]
pub struct Ev {
    pub t: u64,
    pub kind: EvKind,
}

#[derive(Clone, Copy, Debug, PartialEq, Eq, Hash)]
pub enum Kind {
    Publisher,
    Subscriber,
    Requestor,
    Replier,
}

#[derive(Clone, Copy, Debug, PartialEq, Eq)]
pub struct Fault {
    pub op: Op,
    /// fail at the nth call (0-based) of that operation
    pub nth: u32,
}

#[derive(Clone, Debug)]
pub struct SinkPlan {
    /// probability (percent) that a call blocks (Pending until the scheduler unblocks): ready, flush, close
    pub p_block: [u32; 3],
    /// probability (percent) of a cooperative Pending (wake_by_ref + Pending)
    pub p_coop: [u32; 3],
    pub fault: Option<Fault>,
}

impl SinkPlan {
    pub fn always_ready() -> Self {
        SinkPlan {
            p_block: [0; 3],
            p_coop: [0; 3],
            fault: None,
        }
    }
}

pub struct SinkState {
    pub started: Vec<(u64, Frame)>,
    pub start_errs: Vec<(u64, Frame)>,
    pub flushed: usize,
    pub flush_oks: u32,
    pub closed: Option<u64>,
    pub failed: Option<(Op, u64)>,
    pub blocked: [bool; 3],
    pub waker: Option<Waker>,
    pub ready_granted: bool,
    pub calls: [u32; 4],
    pub coop_streak: u32,
    pub plan: SinkPlan,
    pub first_touch: Option<u64>,
    pub touches_after_fail: u32,
    pub touches_after_close: u32,
    pub start_without_ready: u32,
    pub pendings: u32,
    /// start_send runs the real MessageCodec::encode and returns its error (frame-limit errors
    /// appear exactly where FramedWrite would raise them)
    pub encoder_backed: bool,
}

impl SinkState {
    pub fn new(plan: SinkPlan, encoder_backed: bool) -> Self {
        SinkState {
            started: vec![],
            start_errs: vec![],
            flushed: 0,
            flush_oks: 0,
            closed: None,
            failed: None,
            blocked: [false; 3],
            waker: None,
            ready_granted: false,
            calls: [0; 4],
            coop_streak: 0,
            plan,
            first_touch: None,
            touches_after_fail: 0,
            touches_after_close: 0,
            start_without_ready: 0,
            pendings: 0,
            encoder_backed,
        }
    }
    pub fn healthy(&self) -> bool {
        self.failed.is_none()
    }
    pub fn is_blocked(&self) -> bool {
        self.blocked.iter().any(|b| *b)
    }
}

#[derive(Clone, Debug)]
pub enum QItem {
    Frame(usize),
    Err,
}

pub struct StreamState {
    pub queue: VecDeque<QItem>,
    pub ended: bool,
    pub waker: Option<Waker>,
    pub first_touch: Option<u64>,
    pub yielded: Vec<(u64, usize)>,
    pub end_seen: Option<u64>,
    pub errs_yielded: u32,
    pub polls_after_end: u32,
    pub p_coop: u32,
    pub coop_streak: u32,
    pub pendings: u32,
}

impl StreamState {
    pub fn new(p_coop: u32) -> Self {
        StreamState {
            queue: VecDeque::new(),
            ended: false,
            waker: None,
            first_touch: None,
            yielded: vec![],
            end_seen: None,
            errs_yielded: 0,
            polls_after_end: 0,
            p_coop,
            coop_streak: 0,
            pendings: 0,
        }
    }
}

pub struct Peer {
    pub kind: Kind,
    pub label: String,
    pub stream: Option<StreamState>,
    pub sink: Option<SinkState>,
    /// logical time at which the registration was put into the channel
    pub reg_sent: Option<u64>,
}

#[derive(Clone, Debug)]
pub struct ItemRec {
    pub uid: usize,
    pub producer: usize,
    pub seq: u32,
    pub frame: Frame,
    /// free-form class: "msg", "probe", "request", "reply", "malformed-reply", "hostile"
    pub class: &'static str,
    /// for replies: uid of the request answered
    pub answers: Option<usize>,
    /// for replies: the routing tag this reply was emitted with (None when malformed)
    pub cid: Option<String>,
    pub produced_at: u64,
}

pub struct World {
    pub t: u64,
    pub log: Vec<Ev>,
    pub budget: i64,
    pub budget_tripped: bool,
    pub peers: Vec<Peer>,
    pub items: Vec<ItemRec>,
    pub rng: Rng,
    /// settle mode: every healthy sink is ready, no cooperative pendings
    pub settle: bool,
    pub mock_calls: u64,
    /// items yielded by publisher / requestor streams so far
    pub yields: u64,
    /// (n, f): when the n-th item is yielded — i.e. while the router is inside `poll()` — `f` runs (it closes the
    /// registration channel, as a shutdown arriving in the middle of a busy scheduling step does)
    pub close_on_yield: Option<(u64, Box<dyn FnMut() + Send>)>,
    pub closed_at_yield: Option<u64>,
}

pub type Shared = Arc<Mutex<World>>;

pub struct SpinMarker;

pub fn lock(sh: &Shared) -> MutexGuard<'_, World> {
    sh.lock().unwrap_or_else(|e| e.into_inner())
}

impl World {
    pub fn new(seed: u64) -> Self {
        World {
            t: 0,
            log: Vec::with_capacity(256),
            budget: i64::MAX,
            budget_tripped: false,
            peers: vec![],
            items: vec![],
            rng: Rng::new(seed),
            yields: 0,
            close_on_yield: None,
            closed_at_yield: None,
            settle: false,
            mock_calls: 0,
        }
    }
    pub fn push(&mut self, kind: EvKind) -> u64 {
        self.t += 1;
        let t = self.t;
        self.log.push(Ev { t, kind });
        t
    }
    pub fn act(&mut self, s: String) -> u64 {
        self.push(EvKind::Act(s))
    }
    pub fn add_peer(&mut self, kind: Kind, stream: Option<StreamState>, sink: Option<SinkState>) -> usize {
        let id = self.peers.len();
        let label = format!(
            "{}{}",
            match kind {
                Kind::Publisher => "pub",
                Kind::Subscriber => "sub",
                Kind::Requestor => "req",
                Kind::Replier => "rep",
            },
            id
        );
        self.peers.push(Peer {
            kind,
            label,
            stream,
            sink,
            reg_sent: None,
        });
        id
    }
    pub fn new_item(
        &mut self,
        producer: usize,
        seq: u32,
        frame: Frame,
        class: &'static str,
        answers: Option<usize>,
        cid: Option<String>,
    ) -> usize {
        let uid = self.items.len();
        let t = self.t;
        self.items.push(ItemRec {
            uid,
            producer,
            seq,
            frame,
            class,
            answers,
            cid,
            produced_at: t,
        });
        uid
    }
    /// make an item available on a peer's stream; returns the waker to fire (outside the lock)
    pub fn enqueue(&mut self, peer: usize, q: QItem) -> Option<Waker> {
        let st = self.peers[peer].stream.as_mut().expect("stream peer");
        st.queue.push_back(q);
        st.waker.take()
    }
    pub fn end_stream(&mut self, peer: usize) -> Option<Waker> {
        let st = self.peers[peer].stream.as_mut().expect("stream peer");
        st.ended = true;
        st.waker.take()
    }
    /// unblock a sink: returns the waker to fire
    pub fn unblock(&mut self, peer: usize) -> Option<Waker> {
        let si = self.peers[peer].sink.as_mut().expect("sink peer");
        si.blocked = [false; 3];
        si.waker.take()
    }
    pub fn all_wakers_for_settle(&mut self) -> Vec<Waker> {
        let mut v = vec![];
        for p in self.peers.iter_mut() {
            if let Some(si) = p.sink.as_mut() {
                si.blocked = [false; 3];
                if let Some(w) = si.waker.take() {
                    v.push(w);
                }
            }
        }
        v
    }
    fn tick_budget(&mut self) -> bool {
        self.mock_calls += 1;
        self.budget -= 1;
        if self.budget < 0 {
            self.budget_tripped = true;
            return true;
        }
        false
    }
}

fn conn_reset() -> SeliumError {
    SeliumError::IoError(std::io::Error::new(
        std::io::ErrorKind::ConnectionReset,
        "mock: connection lost",
    ))
}

// ---------------------------------------------------------------------------------------
// MockStream
// ---------------------------------------------------------------------------------------
pub struct MockStream {
    pub w: Shared,
    pub peer: usize,
}

impl Stream for MockStream {
    type Item = Result<Frame, SeliumError>;

    fn poll_next(self: Pin<&mut Self>, cx: &mut Context<'_>) -> Poll<Option<Self::Item>> {
        let peer = self.peer;
        let mut w = lock(&self.w);
        if w.tick_budget() {
            drop(w);
            std::panic::resume_unwind(Box::new(SpinMarker));
        }
        let t_now = w.t + 1;
        let settle = w.settle;
        let coop_roll = w.rng.below(100) as u32;
        let st = w.peers[peer].stream.as_mut().expect("stream");
        if st.first_touch.is_none() {
            st.first_touch = Some(t_now);
        }
        if let Some(front) = st.queue.front().cloned() {
            // cooperative pending: item is there, but we yield to the executor first
            if !settle && coop_roll < st.p_coop && st.coop_streak < 2 {
                st.coop_streak += 1;
                st.pendings += 1;
                w.push(EvKind::Call { peer, op: Op::Next, out: Out::Coop, ix: None });
                drop(w);
                cx.waker().wake_by_ref();
                return Poll::Pending;
            }
            st.coop_streak = 0;
            st.queue.pop_front();
            match front {
                QItem::Frame(uid) => {
                    st.yielded.push((t_now, uid));
                    let frame = w.items[uid].frame.clone();
                    w.push(EvKind::Call { peer, op: Op::Next, out: Out::Item, ix: Some(uid) });
                    w.yields += 1;
                    if w.close_on_yield.as_ref().map_or(false, |c| c.0 == w.yields) {
                        let (_, mut f) = w.close_on_yield.take().unwrap();
                        f();
                        w.closed_at_yield = Some(w.yields);
                        w.act("registration channel closed (the router is inside poll)".into());
                    }
                    Poll::Ready(Some(Ok(frame)))
                }
                QItem::Err => {
                    st.errs_yielded += 1;
                    w.push(EvKind::Call { peer, op: Op::Next, out: Out::ErrItem, ix: None });
                    Poll::Ready(Some(Err(conn_reset())))
                }
            }
        } else if st.ended {
            if st.end_seen.is_none() {
                st.end_seen = Some(t_now);
            } else {
                // FramedRead / RecvStream keep answering None after the end: tolerated
                st.polls_after_end += 1;
            }
            w.push(EvKind::Call { peer, op: Op::Next, out: Out::End, ix: None });
            Poll::Ready(None)
        } else {
            st.waker = Some(cx.waker().clone());
            st.pendings += 1;
            w.push(EvKind::Call { peer, op: Op::Next, out: Out::Pending, ix: None });
            Poll::Pending
        }
    }
}

// ---------------------------------------------------------------------------------------
// MockSink
// ---------------------------------------------------------------------------------------
pub struct MockSink {
    pub w: Shared,
    pub peer: usize,
}

enum Decision {
    Ok,
    Block,
    Coop,
    Err,
}

impl MockSink {
    /// common front part of poll_ready / poll_flush / poll_close
    fn poll_op(&self, op: Op, cx: &mut Context<'_>) -> Poll<Result<(), SeliumError>> {
        let peer = self.peer;
        let slot = match op {
            Op::Ready => 0,
            Op::Flush => 1,
            Op::Close => 2,
            _ => unreachable!(),
        };
        let mut w = lock(&self.w);
        if w.tick_budget() {
            drop(w);
            std::panic::resume_unwind(Box::new(SpinMarker));
        }
        let t_now = w.t + 1;
        let settle = w.settle;
        let roll = w.rng.below(100) as u32;
        let si = w.peers[peer].sink.as_mut().expect("sink");
        if si.first_touch.is_none() {
            si.first_touch = Some(t_now);
        }
        let call_no = si.calls[op as usize];
        si.calls[op as usize] += 1;
        let decision = if si.failed.is_some() {
            si.touches_after_fail += 1;
            Decision::Err
        } else if matches!(si.plan.fault, Some(f) if f.op == op && f.nth == call_no) {
            Decision::Err
        } else if settle {
            Decision::Ok
        } else if si.blocked[slot] {
            Decision::Block
        } else if roll < si.plan.p_block[slot] {
            Decision::Block
        } else if roll < si.plan.p_block[slot] + si.plan.p_coop[slot] && si.coop_streak < 2 {
            Decision::Coop
        } else {
            Decision::Ok
        };
        if si.closed.is_some() {
            si.touches_after_close += 1;
        }
        match decision {
            Decision::Err => {
                if si.failed.is_none() {
                    si.failed = Some((op, t_now));
                }
                w.push(EvKind::Call { peer, op, out: Out::Err, ix: None });
                Poll::Ready(Err(conn_reset()))
            }
            Decision::Block => {
                si.blocked[slot] = true;
                si.waker = Some(cx.waker().clone());
                si.pendings += 1;
                si.coop_streak = 0;
                w.push(EvKind::Call { peer, op, out: Out::Pending, ix: None });
                Poll::Pending
            }
            Decision::Coop => {
                si.coop_streak += 1;
                si.pendings += 1;
                w.push(EvKind::Call { peer, op, out: Out::Coop, ix: None });
                drop(w);
                cx.waker().wake_by_ref();
                Poll::Pending
            }
            Decision::Ok => {
                si.coop_streak = 0;
                si.blocked[slot] = false;
                match op {
                    Op::Ready => si.ready_granted = true,
                    Op::Flush => {
                        si.flushed = si.started.len();
                        si.flush_oks += 1;
                    }
                    Op::Close => {
                        si.flushed = si.started.len();
                        if si.closed.is_none() {
                            si.closed = Some(t_now);
                        }
                    }
                    _ => {}
                }
                w.push(EvKind::Call { peer, op, out: Out::Ok, ix: None });
                Poll::Ready(Ok(()))
            }
        }
    }
}

impl Sink<Frame> for MockSink {
    type Error = SeliumError;

    fn poll_ready(self: Pin<&mut Self>, cx: &mut Context<'_>) -> Poll<Result<(), Self::Error>> {
        self.poll_op(Op::Ready, cx)
    }

    fn start_send(self: Pin<&mut Self>, item: Frame) -> Result<(), Self::Error> {
        let peer = self.peer;
        let mut w = lock(&self.w);
        if w.tick_budget() {
            drop(w);
            std::panic::resume_unwind(Box::new(SpinMarker));
        }
        let t_now = w.t + 1;
        let si = w.peers[peer].sink.as_mut().expect("sink");
        if si.first_touch.is_none() {
            si.first_touch = Some(t_now);
        }
        let call_no = si.calls[Op::Start as usize];
        si.calls[Op::Start as usize] += 1;
        if !si.ready_granted {
            si.start_without_ready += 1;
        }
        si.ready_granted = false;
        if si.failed.is_some() {
            si.touches_after_fail += 1;
            w.push(EvKind::Call { peer, op: Op::Start, out: Out::Err, ix: None });
            return Err(conn_reset());
        }
        if matches!(si.plan.fault, Some(f) if f.op == Op::Start && f.nth == call_no) {
            si.failed = Some((Op::Start, t_now));
            si.start_errs.push((t_now, item));
            w.push(EvKind::Call { peer, op: Op::Start, out: Out::Err, ix: None });
            return Err(conn_reset());
        }
        if si.encoder_backed {
            // what FramedWrite::start_send does: run the real encoder, propagate its error;
            // the sink itself stays usable (item-level error)
            let mut buf = BytesMut::new();
            let mut codec = MessageCodec;
            if let Err(e) = codec.encode(item.clone(), &mut buf) {
                si.start_errs.push((t_now, item));
                w.push(EvKind::Call { peer, op: Op::Start, out: Out::Err, ix: None });
                return Err(e);
            }
        }
        si.started.push((t_now, item));
        let ix = si.started.len() - 1;
        w.push(EvKind::Call { peer, op: Op::Start, out: Out::Ok, ix: Some(ix) });
        Ok(())
    }

    fn poll_flush(self: Pin<&mut Self>, cx: &mut Context<'_>) -> Poll<Result<(), Self::Error>> {
        self.poll_op(Op::Flush, cx)
    }

    fn poll_close(self: Pin<&mut Self>, cx: &mut Context<'_>) -> Poll<Result<(), Self::Error>> {
        self.poll_op(Op::Close, cx)
    }
}
